package main

// topo.* records: C13 (look-ups), C14 (transformations) on github.com/SKAARHOJ/rawpanel-lib/topology.
//
// Token grammar (see lean/RawPanelVerif/Driver/Topology.lean):
//   T   := title:hex hwcNil:01 nH H^nH tiNil:01 nT (key TD)^nT          keys ascending
//   H   := id x y txt:hex type uiParent uiYang (~ | + TD)
//   TD  := w h out:hex in:hex desc:hex ext:hex subidx rotate:tok render:hex (~ | + w h subidx type:hex shrink border) nS S^nS
//   S   := objType:hex x y w h r rx ry style:hex idx
//   RES := ids n id^n | xy x y | txt hex | td TD | err msg:hex | hwc H | p P | tp TD P | panic | argmod
//          argmod = an argument OBJECT passed to the library (the free-standing component of resolveAx, the definition the
//          predicates are asked about) differs afterwards from a deep copy taken before the call
// Every look-up prints `RES json` where json = canonical re-tokenisation of ToJSON() after the call.
//   topo.jsonraw | hex(ToJSON()) same:01          raw bytes of ToJSON(); same = JSONstring() gives the same bytes
//   topo.alias VIA GETTER args | alias had:01 changed:01 json
//        VIA := sub | disp | ov; GETTER := type id | resolveA k | resolveAx H | resolveB k | resolveBid id | defid id
//        the getter is called, then the harness writes through the returned value (Sub[0].X++ / Disp.W++ /
//        TypeOverride.W++), records whether ToJSON() changed (an observation of aliasing, not a violation), and
//        undoes the write; json = ToJSON() after the undo.
//
// Histories on ONE Topology object (the executor keeps the object between records; topo.load makes a new one):
//   topo.assign MODE T | json            MODE := fresh | inplace.  The value T is written into the EXISTING object through its
//        exported fields (Title, HWc, TypeIndex, the components' fields, *TypeOverride, *Disp, Sub[i]); fresh = new slices, map
//        and pointers everywhere, inplace = the cells that exist are reused where the shapes match.  json = ToJSON() after it.
//   topo.wedit VIA GETTER args | RES json1 T json2
//        VIA := sub | disp | ov (as topo.alias) | own | ownrefs.  The getter is called (RES, json1 = ToJSON() after the call),
//        the caller then edits what it was handed and does NOT undo: own = every field of the returned struct is overwritten
//        (scalars changed, Disp = nil, Sub = nil; component: all fields, TypeOverride = nil), ownrefs = Disp and Sub of the
//        returned struct are pointed at new cells.  T json2 = the topology read through its exported fields / ToJSON() afterwards.
//        The look-ups that follow must answer from the topology as it stands (T), whatever was handed out earlier.
//   topo.pred2 TD TD' | p P p P          one TopologyHWcTypeDef object: predicates, every field assigned from TD' in place, predicates again

import (
	"encoding/hex"
	"encoding/json"
	"fmt"
	"math"
	"os"
	"sort"
	"strconv"
	"strings"

	"github.com/SKAARHOJ/rawpanel-lib/topology"
)

// ---------- canonical JSON text: {hexkey:val,...} [val,...] s<hex> n<literal> t f z ----------

func canonJSON(text string) string {
	if text == "" {
		return "!empty"
	}
	dec := json.NewDecoder(strings.NewReader(text))
	dec.UseNumber()
	var sb strings.Builder
	var walk func() bool
	walk = func() bool {
		tk, err := dec.Token()
		if err != nil {
			return false
		}
		switch v := tk.(type) {
		case json.Delim:
			if v == '{' {
				sb.WriteByte('{')
				for dec.More() {
					k, err := dec.Token()
					if err != nil {
						return false
					}
					sb.WriteString(hex.EncodeToString([]byte(k.(string))))
					sb.WriteByte(':')
					if !walk() {
						return false
					}
					sb.WriteByte(',')
				}
				dec.Token()
				sb.WriteByte('}')
			} else if v == '[' {
				sb.WriteByte('[')
				for dec.More() {
					if !walk() {
						return false
					}
					sb.WriteByte(',')
				}
				dec.Token()
				sb.WriteByte(']')
			}
		case string:
			sb.WriteByte('s')
			sb.WriteString(hex.EncodeToString([]byte(v)))
		case json.Number:
			sb.WriteByte('n')
			sb.WriteString(string(v))
		case bool:
			if v {
				sb.WriteByte('t')
			} else {
				sb.WriteByte('f')
			}
		case nil:
			sb.WriteByte('z')
		}
		return true
	}
	if !walk() {
		return "!badjson"
	}
	return sb.String()
}

// ---------- float32 token: the text encoding/json prints ("0" for zero) ----------

// (negative zero prints as "-0": it is a different value of the field although -0 == 0)
func rotTok(f float32) string {
	b, err := json.Marshal(f)
	if err != nil {
		return "!nan"
	}
	return string(b)
}
func rotOf(s string) float32 {
	v, err := strconv.ParseFloat(s, 32)
	if err != nil {
		panic("bad rotate token " + s)
	}
	return float32(v)
}

// ---------- encoders ----------

func encSub(s *topology.TopologyHWcTypeDefSubEl) []string {
	return []string{hx([]byte(s.ObjType)), itoa(s.X), itoa(s.Y), itoa(s.W), itoa(s.H), itoa(s.R), itoa(s.Rx), itoa(s.Ry), hx([]byte(s.Style)), itoa(s.Idx)}
}
func itoa(i int) string     { return strconv.Itoa(i) }
func utoa(u uint32) string  { return strconv.FormatUint(uint64(u), 10) }
func encTD(td *topology.TopologyHWcTypeDef) []string {
	o := []string{itoa(td.W), itoa(td.H), hx([]byte(td.Out)), hx([]byte(td.In)), hx([]byte(td.Desc)), hx([]byte(td.Ext)),
		itoa(td.Subidx), rotTok(td.Rotate), hx([]byte(td.Render))}
	if td.Disp == nil {
		o = append(o, "~")
	} else {
		d := td.Disp
		o = append(o, "+", itoa(d.W), itoa(d.H), itoa(d.Subidx), hx([]byte(d.Type)), itoa(d.Shrink), itoa(d.Border))
	}
	o = append(o, itoa(len(td.Sub)))
	for i := range td.Sub {
		o = append(o, encSub(&td.Sub[i])...)
	}
	return o
}
func encHWc(c *topology.TopologyHWcomponent) []string {
	o := []string{utoa(c.Id), itoa(c.X), itoa(c.Y), hx([]byte(c.Txt)), utoa(c.Type), utoa(c.UIparent), utoa(c.UIyang)}
	if c.TypeOverride == nil {
		o = append(o, "~")
	} else {
		o = append(o, "+")
		o = append(o, encTD(c.TypeOverride)...)
	}
	return o
}
func encTopo(t *topology.Topology) []string {
	o := []string{hx([]byte(t.Title)), b01(t.HWc == nil), itoa(len(t.HWc))}
	for i := range t.HWc {
		o = append(o, encHWc(&t.HWc[i])...)
	}
	keys := make([]uint32, 0, len(t.TypeIndex))
	for k := range t.TypeIndex {
		keys = append(keys, k)
	}
	sort.Slice(keys, func(i, j int) bool { return keys[i] < keys[j] })
	o = append(o, b01(t.TypeIndex == nil), itoa(len(keys)))
	for _, k := range keys {
		td := t.TypeIndex[k]
		o = append(o, utoa(k))
		o = append(o, encTD(&td)...)
	}
	return o
}

// ---------- decoders ----------

type tokReader struct {
	t []string
	i int
}

func (r *tokReader) next() string {
	if r.i >= len(r.t) {
		panic("record too short")
	}
	s := r.t[r.i]
	r.i++
	return s
}
func (r *tokReader) int() int {
	v, err := strconv.Atoi(r.next())
	if err != nil {
		panic("bad int in record")
	}
	return v
}
func (r *tokReader) u32() uint32 {
	v, err := strconv.ParseUint(r.next(), 10, 32)
	if err != nil {
		panic("bad uint32 in record")
	}
	return uint32(v)
}
func (r *tokReader) str() string { return string(unhx(r.next())) }

func decSub(r *tokReader) topology.TopologyHWcTypeDefSubEl {
	return topology.TopologyHWcTypeDefSubEl{ObjType: r.str(), X: r.int(), Y: r.int(), W: r.int(), H: r.int(), R: r.int(),
		Rx: r.int(), Ry: r.int(), Style: r.str(), Idx: r.int()}
}
func decTD(r *tokReader) *topology.TopologyHWcTypeDef {
	td := &topology.TopologyHWcTypeDef{}
	td.W, td.H = r.int(), r.int()
	td.Out, td.In, td.Desc, td.Ext = r.str(), r.str(), r.str(), r.str()
	td.Subidx = r.int()
	td.Rotate = rotOf(r.next())
	td.Render = r.str()
	switch r.next() {
	case "~":
	case "+":
		td.Disp = &topology.TopologyHWcTypeDef_Display{W: r.int(), H: r.int(), Subidx: r.int(), Type: r.str(), Shrink: r.int(), Border: r.int()}
	default:
		panic("bad display marker")
	}
	n := r.int()
	for i := 0; i < n; i++ {
		td.Sub = append(td.Sub, decSub(r))
	}
	return td
}
func decHWc(r *tokReader) topology.TopologyHWcomponent {
	c := topology.TopologyHWcomponent{Id: r.u32(), X: r.int(), Y: r.int(), Txt: r.str(), Type: r.u32(), UIparent: r.u32(), UIyang: r.u32()}
	switch r.next() {
	case "~":
	case "+":
		c.TypeOverride = decTD(r)
	default:
		panic("bad override marker")
	}
	return c
}

// values of the index are stored by copying field by field (a TopologyHWcTypeDef holds a mutex)
func storeTD(m map[uint32]topology.TopologyHWcTypeDef, k uint32, td *topology.TopologyHWcTypeDef) {
	m[k] = topology.TopologyHWcTypeDef{W: td.W, H: td.H, Out: td.Out, In: td.In, Desc: td.Desc, Ext: td.Ext, Subidx: td.Subidx,
		Rotate: td.Rotate, Disp: td.Disp, Sub: td.Sub, Render: td.Render}
}
// ---------- writing a topology VALUE into an existing Topology OBJECT through its exported fields ----------

func cloneSubs(s []topology.TopologyHWcTypeDefSubEl) []topology.TopologyHWcTypeDefSubEl {
	if s == nil {
		return nil
	}
	return append([]topology.TopologyHWcTypeDefSubEl{}, s...)
}
func cloneDisp(d *topology.TopologyHWcTypeDef_Display) *topology.TopologyHWcTypeDef_Display {
	if d == nil {
		return nil
	}
	c := *d
	return &c
}

// assignTD: dst's exported fields := src's.  inplace: an existing Disp cell / a Sub array of the same length is written, not replaced.
func assignTD(dst, src *topology.TopologyHWcTypeDef, inplace bool) {
	dst.W, dst.H, dst.Out, dst.In, dst.Desc, dst.Ext = src.W, src.H, src.Out, src.In, src.Desc, src.Ext
	dst.Subidx, dst.Rotate, dst.Render = src.Subidx, src.Rotate, src.Render
	if inplace && dst.Disp != nil && src.Disp != nil {
		*dst.Disp = *src.Disp
	} else {
		dst.Disp = cloneDisp(src.Disp)
	}
	if inplace && len(src.Sub) > 0 && len(dst.Sub) == len(src.Sub) && cap(dst.Sub) == len(dst.Sub) {
		copy(dst.Sub, src.Sub)
	} else {
		dst.Sub = cloneSubs(src.Sub)
	}
}

func assignTopo(dst, src *topology.Topology, inplace bool) {
	dst.Title = src.Title
	// components
	switch {
	case src.HWc == nil:
		dst.HWc = nil
	case inplace && dst.HWc != nil && len(src.HWc) <= len(dst.HWc):
		dst.HWc = dst.HWc[:len(src.HWc)]
	case inplace && dst.HWc != nil:
		for len(dst.HWc) < len(src.HWc) {
			dst.HWc = append(dst.HWc, topology.TopologyHWcomponent{})
		}
	default:
		dst.HWc = make([]topology.TopologyHWcomponent, len(src.HWc))
	}
	for i := range src.HWc {
		d, s := &dst.HWc[i], &src.HWc[i]
		d.Id, d.X, d.Y, d.Txt, d.Type, d.UIparent, d.UIyang = s.Id, s.X, s.Y, s.Txt, s.Type, s.UIparent, s.UIyang
		switch {
		case s.TypeOverride == nil:
			d.TypeOverride = nil
		case inplace && d.TypeOverride != nil:
			assignTD(d.TypeOverride, s.TypeOverride, true)
		default:
			d.TypeOverride = &topology.TopologyHWcTypeDef{}
			assignTD(d.TypeOverride, s.TypeOverride, false)
		}
	}
	// type index
	if src.TypeIndex == nil {
		dst.TypeIndex = nil
		return
	}
	if !inplace || dst.TypeIndex == nil {
		dst.TypeIndex = map[uint32]topology.TopologyHWcTypeDef{}
	}
	for k := range dst.TypeIndex {
		if _, ok := src.TypeIndex[k]; !ok {
			delete(dst.TypeIndex, k)
		}
	}
	for k := range src.TypeIndex {
		s := src.TypeIndex[k]
		n := &topology.TopologyHWcTypeDef{}
		if old, ok := dst.TypeIndex[k]; ok && inplace {
			n.Disp, n.Sub = old.Disp, old.Sub // the entry's own cells: written, not replaced
		}
		assignTD(n, &s, inplace)
		storeTD(dst.TypeIndex, k, n)
	}
}

func cloneTopo(t *topology.Topology) *topology.Topology {
	c := &topology.Topology{}
	assignTopo(c, t, false)
	return c
}

func decTopo(r *tokReader) *topology.Topology {
	t := &topology.Topology{}
	t.Title = r.str()
	hn := r.next() == "1"
	n := r.int()
	if !hn {
		t.HWc = []topology.TopologyHWcomponent{}
	}
	for i := 0; i < n; i++ {
		t.HWc = append(t.HWc, decHWc(r))
	}
	tn := r.next() == "1"
	m := r.int()
	if !tn || m > 0 {
		t.TypeIndex = map[uint32]topology.TopologyHWcTypeDef{}
	}
	for i := 0; i < m; i++ {
		k := r.u32()
		storeTD(t.TypeIndex, k, decTD(r))
	}
	return t
}

func encPreds(td *topology.TopologyHWcTypeDef) []string {
	return []string{b01(td.IsButton()), b01(td.IsBinary()), b01(td.IsPulsed()), b01(td.IsAbsolute()), b01(td.IsIntensity()),
		b01(td.HasDisplay()), b01(td.HasLED()), itoa(td.HasSteps()), itoa(td.LedBarSteps()), b01(td.IsMotorized()),
		hx([]byte(td.GetInputType()))}
}

// encPredsChecked: the predicates, and the definition they were asked about is afterwards what it was
func encPredsChecked(td *topology.TopologyHWcTypeDef) []string {
	before := strings.Join(encTD(td), " ")
	o := encPreds(td)
	if strings.Join(encTD(td), " ") != before {
		return []string{"argmod"}
	}
	return o
}

// ---------- executor ----------

type topoExec struct{ top *topology.Topology }

var devNull *os.File

// the library prints diagnostics with fmt.Println; keep them out of the record stream
func quietly(f func()) {
	if devNull == nil {
		devNull, _ = os.OpenFile(os.DevNull, os.O_WRONLY, 0)
	}
	old := os.Stdout
	os.Stdout = devNull
	defer func() { os.Stdout = old }()
	f()
}

func (e *topoExec) Exec(cmd string, a []string) string {
	if e.top == nil {
		e.top = &topology.Topology{}
	}
	var res []string
	withJSON := true
	a = stripTags(a)
	p := guarded(func() {
		r := &tokReader{t: a}
		top := e.top
		switch cmd {
		case "topo.load":
			e.top = decTopo(r)
		case "topo.hwcs":
			ids := top.GetHWCs()
			res = []string{"ids", itoa(len(ids))}
			for _, id := range ids {
				res = append(res, utoa(id))
			}
		case "topo.withdisp":
			ids := top.GetHWCsWithDisplay()
			res = []string{"ids", itoa(len(ids))}
			for _, id := range ids {
				res = append(res, utoa(id))
			}
		case "topo.xy":
			x, y := top.GetHWCxy(r.u32())
			res = []string{"xy", itoa(x), itoa(y)}
		case "topo.text":
			res = []string{"txt", hx([]byte(top.GetHWCtext(r.u32())))}
		case "topo.type":
			td, err := top.GetHWCtype(r.u32())
			if err != nil || td == nil {
				msg := "<nil error>"
				if err != nil {
					msg = err.Error()
				}
				res = []string{"err", hx([]byte(msg))}
			} else {
				res = append([]string{"td"}, encTD(td)...)
			}
		case "topo.predOf":
			td, err := top.GetHWCtype(r.u32())
			if err != nil || td == nil {
				msg := "<nil error>"
				if err != nil {
					msg = err.Error()
				}
				res = []string{"err", hx([]byte(msg))}
			} else {
				res = append([]string{"tp"}, encTD(td)...)
				res = append(res, encPredsChecked(td)...)
			}
		case "topo.resolveA":
			k := r.int()
			if k < 0 || k >= len(top.HWc) {
				res = []string{"panic"} // the harness, not the library, would index out of range
			} else {
				td := top.GetTypeDefWithOverride(&top.HWc[k])
				res = append([]string{"td"}, encTD(&td)...)
			}
		case "topo.resolveAx":
			c := decHWc(r)
			before := strings.Join(encHWc(&c), " ")
			td := top.GetTypeDefWithOverride(&c)
			res = append([]string{"td"}, encTD(&td)...)
			if strings.Join(encHWc(&c), " ") != before {
				res = []string{"argmod"} // the callee changed the component it was passed
			}
		case "topo.resolveB":
			k := r.int()
			var td *topology.TopologyHWcTypeDef
			if pp := guarded(func() { td = top.GetHWCTypeDefinition(k) }); pp != "" || td == nil {
				res = []string{"panic"}
			} else {
				res = append([]string{"td"}, encTD(td)...)
			}
		case "topo.resolveBid":
			k := r.int()
			var td *topology.TopologyHWcTypeDef
			if pp := guarded(func() { td = top.GetHWCTypeDefinitionFromHWCid(k) }); pp != "" || td == nil {
				res = []string{"panic"}
			} else {
				res = append([]string{"td"}, encTD(td)...)
			}
		case "topo.defid":
			c := top.GetHWCDefinitionFromHWCid(r.int())
			res = append([]string{"hwc"}, encHWc(c)...)
		case "topo.pred":
			td := decTD(r)
			res = append([]string{"p"}, encPredsChecked(td)...)
		case "topo.jsonraw":
			withJSON = false
			j := top.ToJSON()
			res = []string{hx([]byte(j)), b01(top.JSONstring() == j)}
		case "topo.alias":
			via, getter := r.next(), r.next()
			var td *topology.TopologyHWcTypeDef
			var comp *topology.TopologyHWcomponent
			switch getter {
			case "type":
				td, _ = top.GetHWCtype(r.u32())
			case "resolveA":
				if k := r.int(); k >= 0 && k < len(top.HWc) {
					v := top.GetTypeDefWithOverride(&top.HWc[k])
					td = &v
				}
			case "resolveAx":
				c := decHWc(r)
				cb := strings.Join(encHWc(&c), " ")
				v := top.GetTypeDefWithOverride(&c)
				td = &v
				if strings.Join(encHWc(&c), " ") != cb {
					panic("argmod: GetTypeDefWithOverride changed the component it was passed")
				}
			case "resolveB":
				k := r.int()
				guarded(func() { td = top.GetHWCTypeDefinition(k) })
			case "resolveBid":
				k := r.int()
				guarded(func() { td = top.GetHWCTypeDefinitionFromHWCid(k) })
			case "defid":
				comp = top.GetHWCDefinitionFromHWCid(r.int())
			default:
				panic("unknown getter " + getter)
			}
			before := top.ToJSON()
			var undo func()
			switch via {
			case "sub":
				if td != nil && len(td.Sub) > 0 {
					td.Sub[0].X++
					undo = func() { td.Sub[0].X-- }
				}
			case "disp":
				if td != nil && td.Disp != nil {
					td.Disp.W++
					undo = func() { td.Disp.W-- }
				}
			case "ov":
				if comp != nil && comp.TypeOverride != nil {
					comp.TypeOverride.W++
					undo = func() { comp.TypeOverride.W-- }
				}
			default:
				panic("unknown via " + via)
			}
			changed := top.ToJSON() != before
			if undo != nil {
				undo()
			}
			res = []string{"alias", b01(undo != nil), b01(changed)}
		case "topo.assign":
			mode := r.next()
			if mode != "fresh" && mode != "inplace" {
				panic("unknown assign mode " + mode)
			}
			assignTopo(top, decTopo(r), mode == "inplace")
		case "topo.wedit":
			via, getter := r.next(), r.next()
			var td *topology.TopologyHWcTypeDef
			var comp *topology.TopologyHWcomponent
			switch getter {
			case "type":
				id := r.u32()
				var err error
				td, err = top.GetHWCtype(id)
				if err != nil || td == nil {
					td = nil
					msg := "<nil error>"
					if err != nil {
						msg = err.Error()
					}
					res = []string{"err", hx([]byte(msg))}
				}
			case "resolveA":
				if k := r.int(); k >= 0 && k < len(top.HWc) {
					v := top.GetTypeDefWithOverride(&top.HWc[k])
					td = &v
				} else {
					res = []string{"panic"}
				}
			case "resolveAx":
				c := decHWc(r)
				cb := strings.Join(encHWc(&c), " ")
				v := top.GetTypeDefWithOverride(&c)
				td = &v
				if strings.Join(encHWc(&c), " ") != cb {
					panic("argmod: GetTypeDefWithOverride changed the component it was passed")
				}
			case "resolveB":
				k := r.int()
				if pp := guarded(func() { td = top.GetHWCTypeDefinition(k) }); pp != "" || td == nil {
					td = nil
					res = []string{"panic"}
				}
			case "resolveBid":
				k := r.int()
				if pp := guarded(func() { td = top.GetHWCTypeDefinitionFromHWCid(k) }); pp != "" || td == nil {
					td = nil
					res = []string{"panic"}
				}
			case "defid":
				comp = top.GetHWCDefinitionFromHWCid(r.int())
				res = append([]string{"hwc"}, encHWc(comp)...)
			default:
				panic("unknown getter " + getter)
			}
			if td != nil {
				res = append([]string{"td"}, encTD(td)...)
			}
			res = append(res, canonJSON(top.ToJSON()))
			switch via {
			case "sub":
				if td != nil && len(td.Sub) > 0 {
					td.Sub[0].X++
				}
			case "disp":
				if td != nil && td.Disp != nil {
					td.Disp.W++
				}
			case "ov":
				if comp != nil && comp.TypeOverride != nil {
					comp.TypeOverride.W++
				}
			case "own":
				if td != nil {
					td.W, td.H, td.Subidx, td.Rotate = td.W+7, 3-td.H, td.Subidx+1, td.Rotate+33
					td.Out, td.In, td.Desc, td.Ext, td.Render = td.Out+"x", "av,"+td.In, "edited", "pos", "x"
					td.Disp, td.Sub = nil, nil
				}
				if comp != nil {
					comp.Id, comp.X, comp.Y, comp.Txt, comp.Type = comp.Id+5, comp.X+1, comp.Y-1, comp.Txt+"!", 77
					comp.UIparent, comp.UIyang, comp.TypeOverride = comp.UIparent+1, comp.UIyang+1, nil
				}
			case "ownrefs":
				if td != nil {
					td.Disp = &topology.TopologyHWcTypeDef_Display{W: 1, H: 2}
					td.Sub = []topology.TopologyHWcTypeDefSubEl{{ObjType: "r", X: 1}}
				}
				if comp != nil {
					comp.TypeOverride = &topology.TopologyHWcTypeDef{W: 9, In: "pb"}
				}
			default:
				panic("unknown via " + via)
			}
			res = append(res, encTopo(top)...)
		case "topo.pred2":
			withJSON = false
			td := decTD(r)
			res = append([]string{"p"}, encPredsChecked(td)...)
			assignTD(td, decTD(r), true)
			res = append(res, "p")
			res = append(res, encPredsChecked(td)...)
		case "topo.randomize":
			seq := r.next() == "1"
			quietly(func() { top.RandomizeTypes(seq) })
			res = encTopo(top)
		case "topo.clean":
			top.CleanSections()
			res = encTopo(top)
		case "topo.roundtrip":
			withJSON = false
			j := top.ToJSON()
			t2 := &topology.Topology{}
			if err := json.Unmarshal([]byte(j), t2); err != nil {
				res = []string{"err"}
			} else {
				res = append([]string{"ok"}, encTopo(t2)...)
				res = append(res, canonJSON(t2.ToJSON()), b01(top.JSONstring() == j))
			}
		default:
			panic("unknown record " + cmd)
		}
	})
	if p != "" {
		return p
	}
	if withJSON {
		res = append(res, canonJSON(e.top.ToJSON()))
	}
	return strings.Join(res, " ")
}

// tokens starting with '#' are comments: the generators append a fingerprint of the loaded topology to every
// look-up / transformation record so that equal query texts on different topologies count as different cases
func stripTags(a []string) []string {
	o := a[:0:0]
	for _, x := range a {
		if !strings.HasPrefix(x, "#") {
			o = append(o, x)
		}
	}
	return o
}

var topoTag = "#0"

func fingerprint(toks []string) string {
	h := uint64(1469598103934665603)
	for _, t := range toks {
		for i := 0; i < len(t); i++ {
			h = (h ^ uint64(t[i])) * 1099511628211
		}
		h = (h ^ 32) * 1099511628211
	}
	return "#" + strconv.FormatUint(h&0xffffffff, 16)
}

// q: emit a record on the current topology, tagged with its fingerprint
func q(cmd string, args ...interface{}) string {
	return emitS(cmd, append(argStrings(args), topoTag))
}
func qS(cmd string, as []string) string {
	return emitS(cmd, append(append([]string{}, as...), topoTag))
}

// ---------- generators ----------

type topoGen struct{ r *Rng }

var inKinds = []string{"b", "b4", "b2h", "b2v", "pb", "p", "gpi", "av", "ah", "ar", "a", "iv", "ih", "ir", "i", "rg", "rb", "mono",
	"b,extra", "pb,av", ",b", "b4,", "gpi,b", "av,ah,ar", "x", "B", "bb", " b", "rg,x", "mono,",
	"b4,pb,gpi", "b,a,b", "pb,p,x,y", "gpi,,b", "a,b,c,d", "iv,b,pb", "b2h,b2v,b"}
var outKinds = []string{"rgb", "mono", "rg", "rgb,x", "RGB"}
var extKinds = []string{"steps", "pos", "xsteps1", "step", "steps,pos", "pos "}
var rotations = []float32{90, -90, 45.5, 180, 0.1, 1e-7, 1e21, 270, -0.25, 3, float32(math.Copysign(0, -1))}

func (g *topoGen) text(max int) string {
	r := g.r
	n := r.Intn(max + 1)
	var sb strings.Builder
	for i := 0; i < n; i++ {
		switch r.Intn(14) {
		case 0:
			sb.WriteString(string(rune(r.Pick('"', '\\', '<', '>', '&', '|', ',', '/', '\''))))
		case 1:
			sb.WriteString(string(rune(r.Pick(0, 1, 8, 9, 10, 13, 27, 31, 127))))
		case 2:
			sb.WriteString(string(rune(r.Pick(0xe6, 0xf8, 0x2028, 0x2029, 0x20ac, 0xfffd, 0x1f600, 0x7ff, 0x800))))
		case 3:
			// text that looks like an escape sequence of the JSON / XML text layers (must come back literally)
			sb.WriteString([]string{`\u0026`, `\u003c`, `\u003e`, `\n`, `\"`, `\\`, `\u2028`, `&amp;`, `&lt;`, `&#34;`, `\u00`}[r.Intn(11)])
		default:
			sb.WriteByte(byte(r.Range(32, 126)))
		}
	}
	return sb.String()
}
func (g *topoGen) via() string { return []string{"sub", "disp"}[g.r.Intn(2)] }
func (g *topoGen) smallInt() int {
	r := g.r
	switch r.Intn(8) {
	case 0:
		return 0
	case 1:
		return -r.Range(1, 5)
	case 2:
		return r.Pick(1, 1, 2, 1<<31, 1<<40, -1<<33)
	default:
		return r.Range(1, 400)
	}
}
func (g *topoGen) sub() topology.TopologyHWcTypeDefSubEl {
	r := g.r
	s := topology.TopologyHWcTypeDefSubEl{X: r.Range(-50, 50), Y: r.Range(-50, 50)}
	if r.Chance(70) {
		s.ObjType = string(rune(r.Pick('r', 'c', 'd')))
	}
	if r.Chance(60) {
		s.W, s.H = g.smallInt(), g.smallInt()
	}
	if r.Chance(30) {
		s.R = r.Range(0, 20)
	}
	if r.Chance(20) {
		s.Rx, s.Ry = r.Range(0, 9), r.Range(0, 9)
	}
	if r.Chance(30) {
		s.Style = g.text(6)
	}
	if r.Chance(60) {
		s.Idx = r.Range(-3, 12)
	}
	return s
}
func (g *topoGen) disp() *topology.TopologyHWcTypeDef_Display {
	r := g.r
	d := &topology.TopologyHWcTypeDef_Display{}
	if r.Chance(15) {
		return d // present but all-zero
	}
	d.W, d.H = r.Pick(0, 64, 112, 128, 256), r.Pick(0, 32, 48, 64)
	d.Subidx = r.Range(-1, 3)
	if r.Chance(50) {
		d.Type = []string{"gray", "color", "text", ""}[r.Intn(4)]
	}
	if r.Chance(30) {
		d.Shrink = r.Range(0, 3)
	}
	if r.Chance(30) {
		d.Border = r.Range(0, 4)
	}
	return d
}

// a definition in which each of the 11 attributes is set when its mask bit is set (otherwise zero / "absent");
// `edge` additionally puts non-positive numbers where the overlay rule asks for "> 0"
func (g *topoGen) typeDef(mask int, edge bool) *topology.TopologyHWcTypeDef {
	r := g.r
	td := &topology.TopologyHWcTypeDef{}
	pos := func() int {
		if edge && r.Chance(35) {
			return -r.Range(0, 3)
		}
		return g.smallInt()
	}
	if mask&1 != 0 {
		td.W = pos()
	}
	if mask&2 != 0 {
		td.H = pos()
	}
	if mask&4 != 0 {
		td.Out = outKinds[r.Intn(len(outKinds))]
	}
	if mask&8 != 0 {
		td.In = inKinds[r.Intn(len(inKinds))]
	}
	if mask&16 != 0 {
		td.Desc = g.text(10)
	}
	if mask&32 != 0 {
		td.Ext = extKinds[r.Intn(len(extKinds))]
	}
	if mask&64 != 0 {
		td.Subidx = pos()
	}
	if mask&128 != 0 {
		td.Rotate = rotations[r.Intn(len(rotations))]
	}
	if mask&256 != 0 {
		td.Disp = g.disp()
	}
	if mask&512 != 0 {
		n := r.Range(1, 4)
		for i := 0; i < n; i++ {
			td.Sub = append(td.Sub, g.sub())
		}
	}
	if mask&1024 != 0 {
		// every option the renderer knows, alone and combined, plus tokens that merely contain or resemble one
		opts := []string{"txt", "hwcid", "txt,hwcid", "x", "invtxt", "txt,invtxt", "invtxt,hwcid", "hwcid,invtxt,txt", "txt90", "txtx", "xhwcid",
			" txt", "txt ", "txt, hwcid", "TXT", ",", "txt,,hwcid", "invtxt,x"}
		td.Render = opts[r.Intn(len(opts))]
	}
	return td
}

func (g *topoGen) mask() int {
	r := g.r
	switch r.Intn(6) {
	case 0:
		return 0
	case 1:
		return 2047
	case 2:
		return 1 << r.Intn(11)
	case 3:
		return 2047 ^ (1 << r.Intn(11))
	default:
		return r.Intn(2048)
	}
}

var keyPool = []uint32{1, 2, 3, 4, 5, 7, 9, 10, 11, 12, 20, 21, 100, 101, 249, 251, 999999, 1000000, 4294967295}

// markers: 0 none, 1 all, 2 adjacent pair, 3 first, 4 last, 5 random, 6 first+last
func (g *topoGen) topology(forC14 bool) *topology.Topology {
	r := g.r
	t := &topology.Topology{}
	if r.Chance(60) {
		t.Title = g.text(12)
	}
	// type index
	nT := r.Pick(0, 1, 1, 2, 2, 3, 3, 4, 5, 6, 9, 12)
	if !(nT == 0 && r.Chance(50)) {
		t.TypeIndex = map[uint32]topology.TopologyHWcTypeDef{}
	}
	keys := []uint32{}
	for len(keys) < nT {
		var k uint32
		switch r.Intn(10) {
		case 0, 1, 2, 3:
			k = uint32(r.Range(1, 14))
		case 4:
			k = 250
		case 5:
			if !forC14 || r.Chance(10) {
				k = 0
			} else {
				k = uint32(r.Range(1, 30))
			}
		default:
			k = keyPool[r.Intn(len(keyPool))]
		}
		if _, dup := t.TypeIndex[k]; dup {
			continue
		}
		keys = append(keys, k)
		m := g.mask()
		if r.Chance(60) {
			m |= 1 | 8 // most base types have a width and an input kind
		}
		storeTD(t.TypeIndex, k, g.typeDef(m, r.Chance(10)))
	}
	// components
	nC := r.Pick(0, 1, 1, 2, 2, 3, 3, 4, 5, 6, 8)
	if !(nC == 0 && r.Chance(50)) {
		t.HWc = []topology.TopologyHWcomponent{}
	}
	markers := r.Intn(7)
	if !forC14 && r.Chance(60) {
		markers = 0
	}
	dupIds := r.Chance(25)
	for i := 0; i < nC; i++ {
		c := topology.TopologyHWcomponent{Id: uint32(i + 1), X: r.Range(-100, 3000), Y: r.Range(-100, 2000)}
		if dupIds && r.Chance(50) {
			c.Id = uint32(r.Range(0, 3))
		} else if r.Chance(5) {
			c.Id = uint32(r.Pick(0, 4294967295, 1000))
		}
		if r.Chance(70) {
			c.Txt = g.text(10)
		}
		switch {
		case len(keys) > 0 && r.Chance(70):
			c.Type = keys[r.Intn(len(keys))]
		case r.Chance(50):
			c.Type = 0
		case !forC14 || r.Chance(8):
			c.Type = uint32(r.Range(1, 16)) // possibly missing from the index
		}
		isMarker := false
		switch markers {
		case 1:
			isMarker = true
		case 2:
			isMarker = i == nC/2 || i == nC/2+1
		case 3:
			isMarker = i == 0
		case 4:
			isMarker = i == nC-1
		case 5:
			isMarker = r.Chance(40)
		case 6:
			isMarker = i == 0 || i == nC-1
		}
		if isMarker {
			c.Type = 250
			if forC14 {
				if _, ok := t.TypeIndex[250]; !ok && t.TypeIndex != nil && r.Chance(90) {
					storeTD(t.TypeIndex, 250, g.typeDef(g.mask(), false))
					keys = append(keys, 250)
				}
			}
		}
		if r.Chance(60) {
			c.TypeOverride = g.typeDef(g.mask(), r.Chance(40))
		}
		if r.Chance(15) {
			c.UIparent = uint32(r.Range(1, 9))
		}
		if r.Chance(10) {
			c.UIyang = uint32(r.Range(1, 9))
		}
		t.HWc = append(t.HWc, c)
	}
	return t
}

func (g *topoGen) load(t *topology.Topology) {
	toks := encTopo(t)
	topoTag = fingerprint(toks)
	emitS("topo.load", toks)
}

// ids worth asking for: every present id plus absent ones
func (g *topoGen) idsToAsk(t *topology.Topology) []uint32 {
	seen := map[uint32]bool{}
	ids := []uint32{}
	for _, c := range t.HWc {
		if !seen[c.Id] {
			seen[c.Id] = true
			ids = append(ids, c.Id)
		}
	}
	for _, x := range []uint32{0, uint32(len(t.HWc) + 1), uint32(g.r.Range(0, 12)), 4294967295} {
		if !seen[x] {
			seen[x] = true
			ids = append(ids, x)
		}
	}
	return ids
}

func (g *topoGen) freeComponent(t *topology.Topology) topology.TopologyHWcomponent {
	r := g.r
	c := topology.TopologyHWcomponent{Id: uint32(r.Range(0, 9)), X: r.Range(0, 9), Y: r.Range(0, 9), Txt: g.text(3)}
	keys := []uint32{}
	for k := range t.TypeIndex {
		keys = append(keys, k)
	}
	sort.Slice(keys, func(i, j int) bool { return keys[i] < keys[j] })
	if len(keys) > 0 && r.Chance(75) {
		c.Type = keys[r.Intn(len(keys))]
	} else {
		c.Type = uint32(r.Range(0, 16))
	}
	if r.Chance(85) {
		c.TypeOverride = g.typeDef(g.mask(), r.Chance(40))
	}
	return c
}

// all look-ups on the loaded topology; `full` = every getter for every id, otherwise a sample
func (g *topoGen) lookups(t *topology.Topology, full bool) {
	r := g.r
	q("topo.hwcs")
	q("topo.withdisp")
	if full || r.Chance(30) {
		q("topo.jsonraw")
	}
	for _, id := range g.idsToAsk(t) {
		if !full && r.Chance(60) {
			continue
		}
		if full && r.Chance(50) {
			// what the getters hand back shares cells with the topology: write through it, look at ToJSON()
			q("topo.alias", "sub", "type", utoa(id))
			q("topo.alias", "disp", "type", utoa(id))
			q("topo.alias", "ov", "defid", strconv.FormatInt(int64(id), 10))
			q("topo.alias", g.via(), "resolveBid", strconv.FormatInt(int64(id), 10))
		}
		q("topo.xy", utoa(id))
		q("topo.text", utoa(id))
		q("topo.type", utoa(id))
		o := q("topo.predOf", utoa(id))
		if tk := strings.Fields(o); len(tk) > 13 && tk[0] == "tp" {
			qS("topo.pred", tk[1:len(tk)-12]) // the predicates again, on a free-standing copy of the resolved definition
		}
		q("topo.resolveBid", strconv.FormatInt(int64(id), 10))
		q("topo.defid", strconv.FormatInt(int64(id), 10))
	}
	for k := -1; k <= len(t.HWc)+1; k++ {
		if !full && r.Chance(50) {
			continue
		}
		if k >= 0 && k < len(t.HWc) {
			q("topo.resolveA", k)
		}
		q("topo.resolveB", k)
		if full && r.Chance(40) {
			if k >= 0 && k < len(t.HWc) {
				q("topo.alias", g.via(), "resolveA", k)
			}
			q("topo.alias", g.via(), "resolveB", k)
		}
	}
	if full {
		for i := 0; i < 2; i++ {
			c := g.freeComponent(t)
			qS("topo.resolveAx", encHWc(&c))
			// a free-standing component: its own override is not topology storage, the indexed base type is
			qS("topo.alias", append([]string{g.via(), "resolveAx"}, encHWc(&c)...))
		}
		if r.Chance(40) { // int arguments outside the uint32 range wrap around
			id := int64(r.Range(0, 5))
			q("topo.resolveBid", strconv.FormatInt(id+(1<<32), 10))
			q("topo.resolveBid", strconv.FormatInt(id-(1<<32), 10))
			q("topo.defid", strconv.FormatInt(id+(1<<32), 10))
			q("topo.resolveBid", "-1")
		}
		if r.Chance(50) {
			qS("topo.pred", encTD(g.typeDef(g.mask(), false)))
		}
		if r.Chance(50) {
			// the predicates twice on ONE definition object that is edited in between
			td := g.typeDef(g.mask()|8, false)
			td2 := &topology.TopologyHWcTypeDef{}
			assignTD(td2, td, false)
			g.editTD(td2)
			if r.Chance(60) {
				td2.In = inKinds[r.Intn(len(inKinds))]
			}
			qS("topo.pred2", append(encTD(td), encTD(td2)...))
		}
	}
}

// ---------- histories: the same Topology object looked up, changed, looked up again ----------

func (g *topoGen) sortedKeys(t *topology.Topology) []uint32 {
	keys := []uint32{}
	for k := range t.TypeIndex {
		keys = append(keys, k)
	}
	sort.Slice(keys, func(i, j int) bool { return keys[i] < keys[j] })
	return keys
}

// editTD: a definition with one to three attributes changed (set, altered or cleared)
func (g *topoGen) editTD(td *topology.TopologyHWcTypeDef) {
	r := g.r
	n := r.Range(1, 3)
	for i := 0; i < n; i++ {
		f := g.typeDef(1<<r.Intn(11), r.Chance(20))
		clear := r.Chance(25)
		switch r.Intn(11) {
		case 0:
			td.W = f.W + r.Range(1, 60)
		case 1:
			td.H = f.H + r.Range(0, 60)
		case 2:
			td.Out = outKinds[r.Intn(len(outKinds))]
		case 3:
			td.In = inKinds[r.Intn(len(inKinds))]
		case 4:
			td.Desc = g.text(6)
		case 5:
			td.Ext = extKinds[r.Intn(len(extKinds))]
		case 6:
			td.Subidx = r.Range(-1, 4)
		case 7:
			td.Rotate = rotations[r.Intn(len(rotations))]
		case 8:
			if clear {
				td.Disp = nil
			} else {
				td.Disp = g.disp()
			}
		case 9:
			if clear {
				td.Sub = nil
			} else if len(td.Sub) > 0 && r.Bool() {
				td.Sub = cloneSubs(td.Sub)
				td.Sub[r.Intn(len(td.Sub))] = g.sub()
			} else {
				td.Sub = append(cloneSubs(td.Sub), g.sub())
			}
		case 10:
			td.Render = []string{"txt", "hwcid", "txt,hwcid", "", "invtxt"}[r.Intn(5)]
		}
		if clear && r.Bool() {
			td.In, td.Out, td.Ext = "", "", ""
		}
	}
}

// mutate: a deep copy of t with one change of the kind a caller makes through the exported fields: a component's
// override set / changed / removed, a component removed / inserted / retyped / renumbered / moved / relabelled, two
// components swapped, an index entry changed / removed / added, the title; rarely a different topology altogether
func (g *topoGen) mutate(t *topology.Topology) *topology.Topology {
	r := g.r
	c := cloneTopo(t)
	keys := g.sortedKeys(c)
	nC := len(c.HWc)
	pickC := func() int { return r.Intn(nC) }
	kind := r.Intn(16)
	if nC == 0 && kind < 10 {
		kind = 10 + r.Intn(6)
	}
	switch kind {
	case 0: // override set or replaced
		c.HWc[pickC()].TypeOverride = g.typeDef(g.mask(), r.Chance(30))
	case 1, 2: // override changed
		k := pickC()
		if c.HWc[k].TypeOverride == nil {
			c.HWc[k].TypeOverride = &topology.TopologyHWcTypeDef{}
		}
		g.editTD(c.HWc[k].TypeOverride)
	case 3: // override removed
		k := pickC()
		for i := 0; i < nC && c.HWc[k].TypeOverride == nil; i++ {
			k = (k + 1) % nC
		}
		c.HWc[k].TypeOverride = nil
	case 4: // component removed
		k := pickC()
		c.HWc = append(c.HWc[:k], c.HWc[k+1:]...)
	case 5: // component retyped
		k := pickC()
		if len(keys) > 0 && r.Chance(70) {
			c.HWc[k].Type = keys[r.Intn(len(keys))]
		} else {
			c.HWc[k].Type = uint32(r.Pick(0, 250, r.Range(1, 16)))
		}
	case 6: // component renumbered: onto another component's id, or a new one
		k := pickC()
		if r.Bool() {
			c.HWc[k].Id = c.HWc[pickC()].Id
		} else {
			c.HWc[k].Id = uint32(r.Range(0, nC+2))
		}
	case 7: // moved, relabelled
		k := pickC()
		c.HWc[k].X, c.HWc[k].Y, c.HWc[k].Txt = c.HWc[k].X+r.Range(1, 50), r.Range(-100, 2000), g.text(8)
	case 8: // two components swapped (the first one carrying an id changes when ids repeat)
		i, j := pickC(), pickC()
		c.HWc[i], c.HWc[j] = c.HWc[j], c.HWc[i]
	case 9: // component inserted
		n := g.freeComponent(c)
		if r.Bool() && nC > 0 {
			n.Id = c.HWc[pickC()].Id
		} else {
			n.Id = uint32(nC + 1)
		}
		k := r.Intn(nC + 1)
		c.HWc = append(c.HWc[:k], append([]topology.TopologyHWcomponent{n}, c.HWc[k:]...)...)
	case 10, 11: // index entry changed
		if len(keys) == 0 {
			if c.TypeIndex == nil {
				c.TypeIndex = map[uint32]topology.TopologyHWcTypeDef{}
			}
			storeTD(c.TypeIndex, uint32(r.Range(1, 14)), g.typeDef(g.mask()|1|8, false))
			break
		}
		k := keys[r.Intn(len(keys))]
		td := c.TypeIndex[k]
		g.editTD(&td)
		storeTD(c.TypeIndex, k, &td)
	case 12: // index entry removed
		if len(keys) > 0 {
			delete(c.TypeIndex, keys[r.Intn(len(keys))])
		} else {
			c.Title = g.text(5) + "."
		}
	case 13: // index entry added (possibly the one a so far unindexed component names)
		if c.TypeIndex == nil {
			c.TypeIndex = map[uint32]topology.TopologyHWcTypeDef{}
		}
		k := uint32(r.Range(1, 16))
		if nC > 0 && r.Bool() {
			k = c.HWc[pickC()].Type
		}
		storeTD(c.TypeIndex, k, g.typeDef(g.mask()|1|8, false))
	case 14:
		c.Title = g.text(5) + "."
	default:
		return g.topology(false)
	}
	return c
}

func (g *topoGen) assign(t *topology.Topology, step int) {
	toks := encTopo(t)
	topoTag = fingerprint(append(append([]string{}, toks...), itoa(step)))
	emitS("topo.assign", append([]string{[]string{"fresh", "inplace"}[g.r.Intn(2)]}, toks...))
}

// wedits: the caller keeps what a getter handed back and edits it (no undo)
func (g *topoGen) wedits(t *topology.Topology, step int) {
	r := g.r
	ids := g.idsToAsk(t)
	n := r.Range(1, 3)
	for i := 0; i < n; i++ {
		id := ids[r.Intn(len(ids))]
		via := []string{"own", "own", "ownrefs", "sub", "disp"}[r.Intn(5)]
		switch r.Intn(6) {
		case 0, 1:
			q("topo.wedit", via, "type", utoa(id))
		case 2:
			q("topo.wedit", via, "resolveBid", strconv.FormatInt(int64(id), 10))
		case 3:
			q("topo.wedit", []string{"own", "ownrefs", "ov"}[r.Intn(3)], "defid", strconv.FormatInt(int64(id), 10))
		case 4:
			if len(t.HWc) > 0 {
				q("topo.wedit", via, "resolveA", r.Intn(len(t.HWc)))
			}
		default:
			q("topo.wedit", via, "resolveB", r.Range(0, len(t.HWc)))
		}
		topoTag = fingerprint(append(encTopo(g.current()), itoa(step), itoa(i)))
	}
}

// history: look-ups were made on the loaded topology; now change it (through its fields, through the mutators, through
// values handed out earlier) and ask everything again - on the same object
func (g *topoGen) history(first *topology.Topology, steps int, fullAfter bool) {
	r := g.r
	for k := 0; k < steps; k++ {
		switch r.Intn(12) {
		case 0, 1, 2, 3, 4:
			g.assign(g.mutate(g.current()), k)
		case 5, 6, 7:
			g.wedits(g.current(), k)
		case 8:
			q("topo.clean")
		case 9:
			q("topo.randomize", r.Bool())
		case 10:
			g.assign(first, k) // back to the topology the session started with
		default:
			t := g.mutate(g.current())
			g.assign(t, k)
			g.assign(g.mutate(t), k+100) // two changes in a row, nothing asked in between
		}
		topoTag = fingerprint(append(encTopo(g.current()), itoa(k)))
		g.lookups(g.current(), fullAfter)
	}
}

func genC13(r *Rng, sessions int, tier string) {
	g := &topoGen{r: r}
	// a fixed opening: the empty topology and a one-component topology for every single override attribute
	g.load(&topology.Topology{})
	g.lookups(&topology.Topology{}, true)
	for bit := 0; bit < 11; bit++ {
		for _, edge := range []bool{false, true} {
			t := &topology.Topology{HWc: []topology.TopologyHWcomponent{{Id: 1, X: 10, Y: 20, Txt: "A", Type: 7}}, TypeIndex: map[uint32]topology.TopologyHWcTypeDef{}}
			storeTD(t.TypeIndex, 7, g.typeDef(2047, false))
			t.HWc[0].TypeOverride = g.typeDef(1<<bit, edge)
			g.load(t)
			q("topo.type", "1")
			q("topo.resolveB", 0)
			t.HWc[0].TypeOverride = g.typeDef(2047^(1<<bit), edge)
			g.load(t)
			q("topo.type", "1")
			q("topo.resolveB", 0)
		}
	}
	for i := 0; i < sessions; i++ {
		t := g.topology(false)
		g.load(t)
		g.lookups(t, true)
		g.history(cloneTopo(t), r.Range(1, 3), r.Chance(50))
	}
}

func genC14(r *Rng, sessions int, tier string) {
	g := &topoGen{r: r}
	g.load(&topology.Topology{})
	q("topo.roundtrip")
	q("topo.randomize", true)
	q("topo.clean")
	q("topo.roundtrip")
	// large type indexes (more types than the section-marker number 250): sequential renumbering must still give 1..n
	for _, nT := range []int{249, 250, 251, 300} {
		t := &topology.Topology{TypeIndex: map[uint32]topology.TopologyHWcTypeDef{}, HWc: []topology.TopologyHWcomponent{}}
		for i := 0; i < nT; i++ {
			storeTD(t.TypeIndex, uint32(1000+3*i), &topology.TopologyHWcTypeDef{W: 10 + i, In: "b"})
		}
		for i := 0; i < 6; i++ {
			t.HWc = append(t.HWc, topology.TopologyHWcomponent{Id: uint32(i + 1), X: 10 * i, Y: 5, Type: uint32(1000 + 3*r.Intn(nT))})
		}
		g.load(t)
		q("topo.randomize", true)
		topoTag = fingerprint(append(encTopo(g.current()), itoa(nT)))
		g.lookups(g.current(), false)
	}
	for i := 0; i < sessions; i++ {
		t := g.topology(true)
		g.load(t)
		q("topo.roundtrip")
		q("topo.jsonraw") // the raw bytes of ToJSON(): escaping, separators, number literals
		if r.Chance(60) {
			g.lookups(t, false) // getter results BEFORE the first transformation (same object afterwards)
		}
		nops := r.Range(2, 5)
		for k := 0; k < nops; k++ {
			switch r.Intn(9) {
			case 8:
				g.assign(g.mutate14(g.current()), k)
			case 0, 1, 2:
				q("topo.randomize", true)
			case 3, 4:
				q("topo.randomize", false)
			case 5, 6:
				q("topo.clean")
			case 7:
				q("topo.roundtrip")
			}
			topoTag = fingerprint(append(encTopo(g.current()), itoa(k))) // the transformed topology is a new case
			if r.Chance(50) {
				// getter results after the transformation (the executor's topology is the transformed one)
				g.lookups(g.current(), false)
			}
		}
		q("topo.roundtrip")
	}
}

// mutate14: a change through the exported fields that stays inside C14's domain (types of components 0 or indexed)
func (g *topoGen) mutate14(t *topology.Topology) *topology.Topology {
	r := g.r
	c := cloneTopo(t)
	keys := g.sortedKeys(c)
	if len(c.HWc) == 0 {
		c.Title = g.text(5) + "."
		return c
	}
	k := r.Intn(len(c.HWc))
	switch r.Intn(5) {
	case 0:
		c.HWc[k].TypeOverride = g.typeDef(g.mask(), r.Chance(30))
	case 1:
		c.HWc[k].TypeOverride = nil
	case 2:
		c.HWc[k].Type = 250 // becomes a section marker
	case 3:
		if len(keys) > 0 {
			c.HWc[k].Type = keys[r.Intn(len(keys))]
		} else {
			c.HWc[k].Type = 0
		}
	default:
		if len(keys) > 0 {
			kk := keys[r.Intn(len(keys))]
			td := c.TypeIndex[kk]
			g.editTD(&td)
			storeTD(c.TypeIndex, kk, &td)
		}
	}
	return c
}

var theTopoExec = &topoExec{}

func (g *topoGen) current() *topology.Topology {
	if theTopoExec.top == nil {
		return &topology.Topology{}
	}
	return theTopoExec.top
}

func init() {
	registerExecutor("topo", theTopoExec)
	registerFamily("c13", genC13)
	registerFamily("c14", genC14)
	_ = fmt.Sprint
}
