package main

import (
	"flag"
	"fmt"
	"os"
)

func main() {
	if len(os.Args) < 2 {
		fmt.Fprintln(os.Stderr, "usage: harness <family> [-seed N] [-n N] [-tier quick|thorough]")
		os.Exit(2)
	}
	fam := os.Args[1]
	fs := flag.NewFlagSet(fam, flag.ExitOnError)
	seed := fs.Uint64("seed", 1, "PRNG seed")
	n := fs.Int("n", 200, "number of cases / sessions")
	tier := fs.String("tier", "quick", "quick|thorough")
	replay := fs.String("replay", "", "replay file of records (inputs only)")
	fs.Parse(os.Args[2:])
	r := NewRng(*seed)
	defer out.Flush()
	executors["mono"] = &monoExec{}
	if *replay != "" {
		replayFile(*replay)
		return
	}
	switch fam {
	case "c16":
		genC16(r, *n, *tier == "thorough")
	default:
		fmt.Fprintln(os.Stderr, "unknown family", fam)
		os.Exit(2)
	}
}
