package main

import (
	"flag"
	"fmt"
	"os"
	"sort"
)

// Family: a generator (subcommand name = lower-case property id or family name) plus the executors
// (record-prefix -> interpreter running the record on the real library).
type Family struct {
	Name string
	Gen  func(r *Rng, n int, tier string)
}

var families = map[string]*Family{}

func registerFamily(name string, gen func(r *Rng, n int, tier string)) {
	families[name] = &Family{Name: name, Gen: gen}
}
func registerExecutor(prefix string, e Executor) { executors[prefix] = e }

func main() {
	if len(os.Args) < 2 {
		names := []string{}
		for k := range families {
			names = append(names, k)
		}
		sort.Strings(names)
		fmt.Fprintln(os.Stderr, "usage: harness <family> [-seed N] [-n N] [-tier quick|thorough] [-replay file]; families:", names)
		os.Exit(2)
	}
	fam := os.Args[1]
	fs := flag.NewFlagSet(fam, flag.ExitOnError)
	seed := fs.Uint64("seed", 1, "PRNG seed")
	n := fs.Int("n", 200, "number of cases / sessions")
	tier := fs.String("tier", "quick", "quick|thorough")
	replay := fs.String("replay", "", "replay file of records (inputs only)")
	fs.Parse(os.Args[2:])
	r := NewRng(*seed)
	defer out.Flush()
	if *replay != "" {
		replayFile(*replay)
		return
	}
	if fam == "conc-child" { // race-instrumented child of a conc.run record: -n = goroutines*1000 + rounds
		fmt.Println(concRun(*seed, *n/1000, *n%1000))
		return
	}
	if fam == "debug-child" { // child of a conc.debug record
		concDebugChild(*seed)
		return
	}
	f, ok := families[fam]
	if !ok {
		fmt.Fprintln(os.Stderr, "unknown family", fam)
		os.Exit(2)
	}
	f.Gen(r, *n, *tier)
}
