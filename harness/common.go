package main

import (
	"bufio"
	"encoding/hex"
	"fmt"
	"os"
	"strconv"
	"strings"
	"time"
)

// ---- deterministic PRNG (splitmix64); every random choice derives from one state ----
type Rng struct{ s uint64 }

func NewRng(seed uint64) *Rng { return &Rng{s: seed*0x9E3779B97F4A7C15 + 0x1234567} }
func (r *Rng) U64() uint64 {
	r.s += 0x9E3779B97F4A7C15
	z := r.s
	z = (z ^ (z >> 30)) * 0xBF58476D1CE4E5B9
	z = (z ^ (z >> 27)) * 0x94D049BB133111EB
	return z ^ (z >> 31)
}
func (r *Rng) Intn(n int) int {
	if n <= 0 {
		return 0
	}
	return int(r.U64() % uint64(n))
}
func (r *Rng) Range(lo, hi int) int { return lo + r.Intn(hi-lo+1) } // inclusive
func (r *Rng) Bool() bool           { return r.U64()&1 == 1 }
func (r *Rng) Chance(pct int) bool  { return r.Intn(100) < pct }
func (r *Rng) Pick(xs ...int) int   { return xs[r.Intn(len(xs))] }
func (r *Rng) Bytes(n int) []byte {
	b := make([]byte, n)
	for i := range b {
		b[i] = byte(r.U64())
	}
	return b
}

// ---- output: one record per line:  cmd args... | implementation output ----
var out = bufio.NewWriterSize(os.Stdout, 1<<20)

func hx(b []byte) string {
	if len(b) == 0 {
		return "-"
	}
	return hex.EncodeToString(b)
}
func b01(b bool) string {
	if b {
		return "1"
	}
	return "0"
}

func unhx(s string) []byte {
	if s == "-" {
		return []byte{}
	}
	b, err := hex.DecodeString(s)
	if err != nil {
		panic("bad hex in record")
	}
	return b
}

// Executor: runs one record against the real library and returns its canonical output.
type Executor interface {
	Exec(cmd string, args []string) string
}

var executors = map[string]Executor{}

func execFor(cmd string) Executor {
	fam := cmd
	if i := strings.Index(cmd, "."); i >= 0 {
		fam = cmd[:i]
	}
	e, ok := executors[fam]
	if !ok {
		panic("no executor for family " + fam)
	}
	return e
}

func argStrings(args []interface{}) []string {
	o := make([]string, len(args))
	for i, a := range args {
		switch v := a.(type) {
		case bool:
			o[i] = b01(v)
		case []byte:
			o[i] = hx(v)
		case string:
			o[i] = v
		default:
			o[i] = fmt.Sprint(v)
		}
	}
	return o
}

// emit: the single path by which generators and replays drive the implementation:
// render the arguments, execute the record on the real code, print `cmd args | output`.
func emit(cmd string, args ...interface{}) string {
	return emitS(cmd, argStrings(args))
}

func emitS(cmd string, as []string) string {
	if os.Getenv("VERIF_TRACE") != "" { // debugging aid: show the record before executing it (a hang is then attributable)
		fmt.Fprintln(os.Stderr, "TRACE", cmd, strings.Join(as, " "))
	}
	impl := execWatched(cmd, as)
	var sb strings.Builder
	sb.WriteString(cmd)
	for _, a := range as {
		sb.WriteByte(' ')
		sb.WriteString(a)
	}
	sb.WriteString(" | ")
	sb.WriteString(impl)
	sb.WriteByte('\n')
	out.WriteString(sb.String())
	return impl
}

// execWatched runs one record under a deadline (VERIF_RECORD_TIMEOUT seconds, default 120): a record whose execution does
// not come back is reported as `hang:<seconds>s` (the property checks say "never hangs"); the stuck goroutine cannot be
// killed, so after the second hang the remaining records are not run: the record stream is flushed and the process
// exits with status 4 (the orchestrator reports that as well).  Families with their own per-script watchdogs (net,
// life, gorwp, conc) finish far below the deadline.
var hangCount int

func execWatched(cmd string, as []string) string {
	limit := 120
	if v := os.Getenv("VERIF_RECORD_TIMEOUT"); v != "" {
		if n, err := strconv.Atoi(v); err == nil && n > 0 {
			limit = n
		}
	}
	ex := execFor(cmd)
	done := make(chan string, 1)
	go func() { done <- ex.Exec(cmd, as) }()
	select {
	case r := <-done:
		return r
	case <-time.After(time.Duration(limit) * time.Second):
		hangCount++
		if hangCount >= 2 {
			var sb strings.Builder
			sb.WriteString(cmd)
			for _, a := range as {
				sb.WriteByte(' ')
				sb.WriteString(a)
			}
			sb.WriteString(fmt.Sprintf(" | hang:%ds\n", limit))
			out.WriteString(sb.String())
			out.Flush()
			fmt.Fprintln(os.Stderr, "harness: second record that does not return; giving up")
			os.Exit(4)
		}
		return fmt.Sprintf("hang:%ds", limit)
	}
}

// replay: re-execute the input half of every record of a file
func replayFile(path string) {
	f, err := os.Open(path)
	if err != nil {
		fmt.Fprintln(os.Stderr, err)
		os.Exit(2)
	}
	defer f.Close()
	sc := bufio.NewScanner(f)
	sc.Buffer(make([]byte, 1<<20), 1<<28)
	for sc.Scan() {
		line := sc.Text()
		if i := strings.Index(line, " | "); i >= 0 {
			line = line[:i]
		}
		toks := strings.Fields(line)
		if len(toks) == 0 || strings.HasPrefix(toks[0], "#") {
			continue
		}
		emitS(toks[0], toks[1:])
	}
}

// run f under recover; returns "" or "panic:<text>"
func guarded(f func()) (res string) {
	defer func() {
		if r := recover(); r != nil {
			res = "panic:" + strings.ReplaceAll(fmt.Sprint(r), " ", "_")
		}
	}()
	f()
	return ""
}
