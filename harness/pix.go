package main

import (
	"bytes"
	"fmt"
	"image"
	"image/color"
	"image/png"
	"strings"

	helpers "github.com/SKAARHOJ/rawpanel-lib"
	monogfx "github.com/SKAARHOJ/rawpanel-lib/ibeam_lib_monogfx"
	rwp "github.com/SKAARHOJ/rawpanel-lib/ibeam_rawpanel"
)

// C17: pixel-format conversions (mono bitmap <-> RGB565 / 4-bit grey / image objects / PNG).
//
// records (all stateless):
//   pix.color code                      | bckg16 pixel16
//   pix.export w h pc bc bits           | pixel16 bckg16 rgbhex grayhex
//   pix.rt w h inv bits                 | IMG w2 h2 bytes2          (ConvertToImage -> CreateFromImage)
//   pix.fromimg w h rgba                | w2 h2 bytes2              (CreateFromImage of an arbitrary RGBA image)
//   pix.gfx type W H tw th data         | A B C P
//        A = CreateImgObjectFrom{RGB,Gray}Bytes(W,H,data)   (`none` for mono)
//        B = RwpImgToImage(gfx, W, H)      C = RwpImgToImage(gfx, tw, th)
//        P = image/png.Decode(ConvertGfxStateToPngBytes(state))   (`nopng` when the bytes do not decode)
//   pix.gfxo type W H tw th xyoffset X Y data | A B C P
//        the same with the placement fields XYoffset / X / Y of the message set (where a panel puts the image on its
//        display; the conversions must not read them: routines agree, centred placement on the target canvas)
//   pix.obj op...                       | one token per call          (ONE MonoImg used more than once; see objOp)
//   pix.seq par step...                 | <tokens of every step, printed right after its call> <the same, printed at the end>
//        several conversions one after the other, the caller keeping every result (slices, image objects, PNG bytes) while
//        the later calls run; each result is printed twice: right after its own call and again after the last call
//        (the PNG bytes are decoded then).  What an earlier call returned must not change when a later call runs.
//          G:type:W:H:tw:th:data       the four results of pix.gfx                      -> A B C P
//          M:same:w:h:pc:bc:inv:bits   CreateFromBytes on a fresh object (same=1: on the object of the previous M step),
//                                      both colours set, then GetImgSliceRGB, GetImgSliceGray, ConvertToImage(inv),
//                                      GetImgSlice                                      -> pixel16 bckg16 rgb gray IMG bytes
//        par=1: the whole sequence runs in two goroutines at the same time (each keeps its own results)
// an image is printed as one token  <w>x<h>:<RGBA hex, row major>  (`-` for no pixels)

type pixExec struct{}

func init() {
	registerExecutor("pix", &pixExec{})
	registerFamily("c17", genC17)
}

func imgTok(im image.Image) string {
	b := im.Bounds()
	w, h := b.Dx(), b.Dy()
	buf := make([]byte, 0, w*h*4)
	for y := b.Min.Y; y < b.Max.Y; y++ {
		for x := b.Min.X; x < b.Max.X; x++ {
			c := color.RGBAModel.Convert(im.At(x, y)).(color.RGBA)
			buf = append(buf, c.R, c.G, c.B, c.A)
		}
	}
	return fmt.Sprintf("%dx%d:%s", w, h, hx(buf))
}

// mono image of w x h whose buffer is exactly `bits` (len must be ceil(w/8)*h): the only public way to load a bit pattern
func monoFromBits(w, h int, bits []byte) *monogfx.MonoImg {
	img := &monogfx.MonoImg{}
	cp := append([]byte{}, bits...)
	if err := img.CreateFromBytes(w, h, cp); err != nil {
		panic("harness: bit pattern shorter than the canvas")
	}
	return img
}

// a MonoImg that has been in use: a 96x80 canvas with every pixel lit, text state and colours set (callers convert frame
// after frame into one object; the result must not depend on what the object held)
func usedDestination() *monogfx.MonoImg {
	d := &monogfx.MonoImg{}
	d.NewImage(96, 80)
	d.FillRect(0, 0, 96, 80, true)
	d.SetFont(1, true)
	d.SetTextSize(2, 2)
	return d
}

// mono images that have been in use and hold a canvas of exactly the byte size a w x h image needs, every bit set:
// the same size, and another shape with the same number of bytes (8 columns x ceil(w/8)*h rows)
func usedSameSize(w, h int) []*monogfx.MonoImg {
	mk := func(w2, h2 int) *monogfx.MonoImg {
		d := &monogfx.MonoImg{}
		d.NewImage(w2, h2)
		d.FillRect(0, 0, w2, h2, true)
		d.SetOLEDPixelColor(0b110011)
		d.SetOLEDBckgColor(0b001100)
		return d
	}
	o := []*monogfx.MonoImg{mk(w, h)}
	if n := wib(w) * h; n > 0 && n <= 4096 {
		o = append(o, mk(8, n))
	}
	return o
}

// one call on the object of a pix.obj record; returns the token printed for it
func objOp(img *monogfx.MonoImg, tok string) string {
	f := strings.Split(tok, ":")
	canv := func() string { return fmt.Sprintf("%d:%d:%s", img.Width, img.Height, hx(img.GetImgSlice())) }
	cols := func() string { return fmt.Sprintf("%d:%d", img.OLEDPixelColor, img.OLEDBckgColor) }
	switch f[0] {
	case "P":
		img.SetOLEDPixelColor(atoi(f[1]))
		return cols()
	case "K":
		img.SetOLEDBckgColor(atoi(f[1]))
		return cols()
	case "N":
		img.NewImage(atoi(f[1]), atoi(f[2]))
	case "B":
		_ = img.CreateFromBytes(atoi(f[1]), atoi(f[2]), append([]byte{}, unhx(f[3])...))
	case "F":
		img.FillRect(atoi(f[1]), atoi(f[2]), atoi(f[3]), atoi(f[4]), abool(f[5]))
	case "I":
		img.CreateFromImage(monoFromBits(atoi(f[1]), atoi(f[2]), unhx(f[4])).ConvertToImage(abool(f[3])))
	case "J":
		im := image.NewRGBA(image.Rect(0, 0, atoi(f[1]), atoi(f[2])))
		copy(im.Pix, unhx(f[3]))
		img.CreateFromImage(im)
	case "T":
		img.CreateFromImage(img.ConvertToImage(abool(f[1])))
	case "E":
		rgb, gray := img.GetImgSliceRGB(), img.GetImgSliceGray()
		return cols() + ":" + canv() + ":" + hx(rgb) + ":" + hx(gray)
	default:
		panic("unknown call " + tok)
	}
	return canv()
}

func (e *pixExec) Exec(cmd string, a []string) string {
	res := ""
	p := guarded(func() {
		switch cmd {
		case "pix.color":
			img := &monogfx.MonoImg{}
			img.NewImage(8, 1)
			img.SetOLEDBckgColor(atoi(a[0]))
			img.SetOLEDPixelColor(atoi(a[0]))
			res = fmt.Sprintf("%d %d", img.OLEDBckgColor, img.OLEDPixelColor)
		case "pix.export":
			w, h, pc, bc := atoi(a[0]), atoi(a[1]), atoi(a[2]), atoi(a[3])
			img := monoFromBits(w, h, unhx(a[4]))
			img.SetOLEDPixelColor(pc)
			img.SetOLEDBckgColor(bc)
			rgb := img.GetImgSliceRGB()
			gray := img.GetImgSliceGray()
			res = fmt.Sprintf("%d %d %s %s", img.OLEDPixelColor, img.OLEDBckgColor, hx(rgb), hx(gray))
		case "pix.rt":
			w, h, inv := atoi(a[0]), atoi(a[1]), abool(a[2])
			img := monoFromBits(w, h, unhx(a[3]))
			im := img.ConvertToImage(inv)
			back := &monogfx.MonoImg{}
			back.CreateFromImage(im)
			res = fmt.Sprintf("%s %d %d %s", imgTok(im), back.Width, back.Height, hx(back.GetImgSlice()))
			// the same conversion into objects that already hold an image (a larger one; one of exactly the same byte size)
			for _, used := range append(usedSameSize(w, h), usedDestination()) {
				used.CreateFromImage(im)
				if r2 := fmt.Sprintf("%s %d %d %s", imgTok(im), used.Width, used.Height, hx(used.GetImgSlice())); r2 != res {
					res = r2
				}
			}
		case "pix.fromimg":
			w, h := atoi(a[0]), atoi(a[1])
			im := image.NewRGBA(image.Rect(0, 0, w, h))
			copy(im.Pix, unhx(a[2]))
			back := &monogfx.MonoImg{}
			back.CreateFromImage(im)
			res = fmt.Sprintf("%d %d %s", back.Width, back.Height, hx(back.GetImgSlice()))
			for _, used := range append(usedSameSize(w, h), usedDestination()) {
				used.CreateFromImage(im)
				if r2 := fmt.Sprintf("%d %d %s", used.Width, used.Height, hx(used.GetImgSlice())); r2 != res {
					res = r2
				}
			}
		case "pix.obj":
			img := &monogfx.MonoImg{}
			outs := make([]string, len(a))
			for i, op := range a {
				outs[i] = objOp(img, op)
			}
			res = strings.Join(outs, " ")
		case "pix.seq":
			if atoi(a[0]) == 1 {
				outs := [2]string{}
				done := make(chan int, 2)
				for i := range outs {
					go func(i int) {
						defer func() { done <- i }()
						if p := guarded(func() { outs[i] = pixSeq(a[1:]) }); p != "" {
							outs[i] = p
						}
					}(i)
				}
				<-done
				<-done
				res = outs[0]
				if outs[1] != res && !strings.HasPrefix(res, "panic") {
					res = outs[1]
				}
			} else {
				res = pixSeq(a[1:])
			}
			if strings.HasPrefix(res, "panic") {
				panic(strings.TrimPrefix(res, "panic:"))
			}
		case "pix.gfx", "pix.gfxo":
			t, W, H, tw, th := atoi(a[0]), atoi(a[1]), atoi(a[2]), atoi(a[3]), atoi(a[4])
			data := unhx(a[len(a)-1])
			mk := func() *rwp.HWCGfx {
				g := &rwp.HWCGfx{ImageType: rwp.HWCGfx_ImageTypeE(t), W: uint32(W), H: uint32(H), ImageData: append([]byte{}, data...)}
				if cmd == "pix.gfxo" {
					g.XYoffset, g.X, g.Y = abool(a[5]), uint32(atoi(a[6])), uint32(atoi(a[7]))
				}
				return g
			}
			A := "none"
			switch rwp.HWCGfx_ImageTypeE(t) {
			case rwp.HWCGfx_RGB16bit:
				A = imgTok(helpers.CreateImgObjectFromRGBBytes(W, H, append([]byte{}, data...)))
			case rwp.HWCGfx_Gray4bit:
				A = imgTok(helpers.CreateImgObjectFromGrayBytes(W, H, append([]byte{}, data...)))
			}
			B := imgTok(helpers.RwpImgToImage(mk(), W, H))
			C := imgTok(helpers.RwpImgToImage(mk(), tw, th))
			P := "nopng"
			pb, err := helpers.ConvertGfxStateToPngBytes(&rwp.HWCState{HWCGfx: mk()})
			if err != nil {
				P = "error"
			} else if im, derr := png.Decode(bytes.NewReader(pb)); derr == nil {
				P = imgTok(im)
			}
			res = A + " " + B + " " + C + " " + P
		default:
			panic("unknown record " + cmd)
		}
	})
	if p != "" {
		return p
	}
	return res
}

// the steps of a pix.seq record: every result is kept by the caller and printed right after its call and again at the end
func pixSeq(steps []string) string {
	imm := []string{}
	late := []func() string{}
	var shared *monogfx.MonoImg
	for _, st := range steps {
		f := strings.Split(st, ":")
		var tok func() string
		switch f[0] {
		case "G":
			t, W, H, tw, th, data := atoi(f[1]), atoi(f[2]), atoi(f[3]), atoi(f[4]), atoi(f[5]), unhx(f[6])
			mk := func() *rwp.HWCGfx {
				return &rwp.HWCGfx{ImageType: rwp.HWCGfx_ImageTypeE(t), W: uint32(W), H: uint32(H), ImageData: append([]byte{}, data...)}
			}
			var A image.Image
			switch rwp.HWCGfx_ImageTypeE(t) {
			case rwp.HWCGfx_RGB16bit:
				A = helpers.CreateImgObjectFromRGBBytes(W, H, append([]byte{}, data...))
			case rwp.HWCGfx_Gray4bit:
				A = helpers.CreateImgObjectFromGrayBytes(W, H, append([]byte{}, data...))
			}
			B := helpers.RwpImgToImage(mk(), W, H)
			C := helpers.RwpImgToImage(mk(), tw, th)
			pb, err := helpers.ConvertGfxStateToPngBytes(&rwp.HWCState{HWCGfx: mk()})
			tok = func() string {
				a, p := "none", "nopng"
				if A != nil {
					a = imgTok(A)
				}
				if err != nil {
					p = "error"
				} else if im, derr := png.Decode(bytes.NewReader(pb)); derr == nil {
					p = imgTok(im)
				}
				return a + " " + imgTok(B) + " " + imgTok(C) + " " + p
			}
		case "M":
			same, w, h, pc, bc, inv := abool(f[1]), atoi(f[2]), atoi(f[3]), atoi(f[4]), atoi(f[5]), abool(f[6])
			img := shared
			if !same || img == nil {
				img = &monogfx.MonoImg{}
			}
			shared = img
			if err := img.CreateFromBytes(w, h, append([]byte{}, unhx(f[7])...)); err != nil {
				panic("harness: bit pattern shorter than the canvas")
			}
			img.SetOLEDPixelColor(pc)
			img.SetOLEDBckgColor(bc)
			p16, b16 := img.OLEDPixelColor, img.OLEDBckgColor
			rgb, gray, im, sl := img.GetImgSliceRGB(), img.GetImgSliceGray(), img.ConvertToImage(inv), img.GetImgSlice()
			tok = func() string {
				return fmt.Sprintf("%d %d %s %s %s %s", p16, b16, hx(rgb), hx(gray), imgTok(im), hx(sl))
			}
		default:
			panic("unknown step " + st)
		}
		imm = append(imm, tok())
		late = append(late, tok)
	}
	for _, tok := range late {
		imm = append(imm, tok())
	}
	return strings.Join(imm, " ")
}

// ---- generators ----

func wib(w int) int { return (w + 7) / 8 }

func pixBits(r *Rng, n int) []byte {
	b := r.Bytes(n)
	switch r.Intn(8) {
	case 0:
		for i := range b {
			b[i] = 0
		}
	case 1:
		for i := range b {
			b[i] = 0xFF
		}
	case 2:
		for i := range b {
			b[i] = 0xAA
		}
	}
	return b
}

// data for a graphics state: nibbles / colour words biased to the extreme values
func gfxData(r *Rng, n int) []byte {
	b := r.Bytes(n)
	for i := range b {
		switch r.Intn(10) {
		case 0:
			b[i] = 0
		case 1:
			b[i] = 0xFF
		case 2:
			b[i] = 0x0F
		case 3:
			b[i] = 0xF0
		}
	}
	return b
}

func gfxNeed(t, W, H int) int {
	switch t {
	case 0:
		return wib(W) * H
	case 1:
		return 2 * W * H
	}
	return (W*H + 1) / 2
}

// target canvas: smaller, equal, larger; odd and even differences; 0 included
func target(r *Rng, d int) int {
	switch r.Intn(6) {
	case 0:
		return d
	case 1:
		return r.Range(0, d)
	case 2:
		return d + r.Range(1, 9)
	case 3:
		return maxInt(0, d-r.Range(1, 5))
	}
	return r.Range(0, d+12)
}

func emitGfx(r *Rng, t, W, H, n int) {
	if r.Chance(30) {
		// every field of the message set: the placement fields are for the panel's display, not for the conversions
		xyo := r.Chance(75)
		X, Y := r.Pick(0, 1, 2, 3, r.Range(0, W+4), 4000000000), r.Pick(0, 1, 2, r.Range(0, H+4))
		if r.Chance(50) && X == 0 && Y == 0 {
			X = 1
		}
		emit("pix.gfxo", t, W, H, target(r, W), target(r, H), xyo, X, Y, gfxData(r, n))
		return
	}
	emit("pix.gfx", t, W, H, target(r, W), target(r, H), gfxData(r, n))
}

// ---- one object used more than once: every order of {set colours, (re)create, draw, export} ----

func genPixObj(r *Rng, maxW, maxH int) {
	ops := []string{}
	w, h := -1, -1 // size of the canvas the object holds (-1: none yet)
	size := func() (int, int) {
		if w >= 0 && wib(w)*h > 0 && r.Chance(55) {
			// exactly the byte size the object already holds: same size, another width in the same byte column, or the
			// transposed shape
			switch r.Intn(3) {
			case 0:
				return w, h
			case 1:
				return 8*(wib(w)-1) + r.Range(1, 8), h
			default:
				if h <= 8 {
					return 8 * h, wib(w)
				}
				return w, h
			}
		}
		if r.Chance(12) {
			return r.Pick(0, 1, 8, 9), r.Pick(0, 1, 2)
		}
		return r.Range(0, maxW), r.Range(0, maxH)
	}
	rgba := func(n int) []byte {
		px := r.Bytes(n * 4)
		for j := 0; j < len(px); j += 4 {
			px[j] = byte(r.Pick(0, 1, 127, 128, 255, int(px[j])))
		}
		return px
	}
	n := r.Range(3, 9)
	for k := 0; k < n; k++ {
		switch r.Intn(20) {
		case 0, 1, 2:
			ops = append(ops, fmt.Sprintf("P:%d", r.Intn(64)+64*r.Pick(0, 0, 0, 1, 2, 3)))
		case 3, 4, 5:
			ops = append(ops, fmt.Sprintf("K:%d", r.Intn(64)+64*r.Pick(0, 0, 0, 1, 2, 3)))
		case 6, 7:
			w, h = size()
			ops = append(ops, fmt.Sprintf("N:%d:%d", w, h))
		case 8, 9:
			w, h = size()
			need := wib(w) * h
			l := need
			switch r.Intn(5) {
			case 0:
				l = r.Range(0, need)
			case 1:
				l = need + r.Range(1, 12)
			}
			ops = append(ops, fmt.Sprintf("B:%d:%d:%s", w, h, hx(pixBits(r, l))))
		case 10, 11, 12:
			w, h = size()
			ops = append(ops, fmt.Sprintf("I:%d:%d:%s:%s", w, h, b01(r.Bool()), hx(pixBits(r, wib(w)*h))))
		case 13:
			w, h = size()
			ops = append(ops, fmt.Sprintf("J:%d:%d:%s", w, h, hx(rgba(w*h))))
		case 14:
			ops = append(ops, fmt.Sprintf("T:%s", b01(r.Bool())))
		case 15, 16:
			if w >= 0 && r.Chance(60) {
				ops = append(ops, fmt.Sprintf("F:0:0:%d:%d:1", w, h)) // every bit of the canvas set
			} else {
				ops = append(ops, fmt.Sprintf("F:%d:%d:%d:%d:%s", r.Range(-2, 10), r.Range(-2, 6), r.Range(0, 20), r.Range(0, 10), b01(r.Chance(70))))
			}
		default:
			ops = append(ops, "E")
		}
	}
	if ops[len(ops)-1] != "E" {
		ops = append(ops, "E")
	}
	args := make([]interface{}, len(ops))
	for i, o := range ops {
		args[i] = o
	}
	emit("pix.obj", args...)
}

// ---- several conversions in a row, every result kept: what an earlier call returned stays as it was ----
//
// 2-4 steps.  A step after the first is mostly of the same kind, format and declared size as the one before with flatter
// (one constant byte), other, or shorter data, or of a smaller size: whatever the later call produces fits into the space
// the earlier result occupies (a buffer kept between calls is re-used exactly then).
func genPixSeq(r *Rng, maxW, maxH int) {
	steps := []interface{}{b01(r.Chance(25))}
	flat := func(n int) []byte {
		b := make([]byte, n)
		c := byte(r.Pick(0, 0xFF, 0x0F, 0xF8, r.Intn(256)))
		for i := range b {
			b[i] = c
		}
		return b
	}
	kind, t, W, H := -1, 0, 0, 0
	for k, n := 0, r.Range(2, 4); k < n; k++ {
		fresh := kind < 0 || r.Chance(15)
		if fresh {
			kind, t = r.Pick(0, 0, 0, 1), r.Intn(3)
			W, H = r.Range(1, maxW), r.Range(1, maxH)
			if r.Chance(5) {
				W, H = r.Pick(0, 1, W), r.Pick(0, 1, H)
			}
		} else if r.Chance(20) {
			W, H = r.Range(minInt(1, W), W), r.Range(minInt(1, H), H) // smaller
		}
		need := gfxNeed(t, W, H)
		if kind == 1 {
			need = wib(W) * H
		}
		var data []byte
		switch {
		case fresh || r.Chance(25):
			data = r.Bytes(need) // busy
		case r.Chance(70):
			data = flat(need)
		default:
			data = gfxData(r, need)
		}
		if kind == 0 {
			switch r.Intn(8) {
			case 0:
				data = data[:r.Range(0, need)]
			case 1:
				data = append(data, r.Bytes(r.Range(1, 9))...)
			}
			steps = append(steps, fmt.Sprintf("G:%d:%d:%d:%d:%d:%s", t, W, H, target(r, W), target(r, H), hx(data)))
		} else {
			steps = append(steps, fmt.Sprintf("M:%s:%d:%d:%d:%d:%s:%s", b01(r.Chance(40)), W, H, r.Intn(64), r.Intn(64), b01(r.Bool()), hx(data)))
		}
	}
	emit("pix.seq", steps...)
}

func genC17(r *Rng, n int, tier string) {
	thorough := tier == "thorough"
	maxW, maxH := 24, 12
	if thorough {
		maxW, maxH = 64, 64
	}
	// (2) every colour code, incl. the don't-care bits xx of xxrrggbb
	for c := 0; c < 256; c++ {
		emit("pix.color", c)
	}
	// (1) exports: every pixel/background pair; the canvas size walks over the whole size grid
	sizes := [][2]int{}
	for h := 0; h <= maxH; h++ {
		for w := 0; w <= maxW; w++ {
			sizes = append(sizes, [2]int{w, h})
		}
	}
	k := 0
	for pc := 0; pc < 64; pc++ {
		for bc := 0; bc < 64; bc++ {
			s := sizes[k%len(sizes)]
			k++
			extra := 0
			if k%9 == 0 { // CreateFromBytes installs the caller's slice: it may be longer than ceil(w/8)*h
				extra = r.Range(1, 24)
			}
			emit("pix.export", s[0], s[1], pc, bc, pixBits(r, wib(s[0])*s[1]+extra))
		}
	}
	for ; k < len(sizes); k++ { // thorough: the grid is larger than the number of pairs
		s := sizes[k]
		emit("pix.export", s[0], s[1], r.Intn(64), r.Intn(64), pixBits(r, wib(s[0])*s[1]))
	}
	// (3) round trips: every size, both invert values
	for _, s := range sizes {
		if thorough && s[0]*s[1] > 1600 && r.Chance(70) {
			continue
		}
		for _, inv := range []bool{false, true} {
			emit("pix.rt", s[0], s[1], inv, pixBits(r, wib(s[0])*s[1]))
		}
	}
	// CreateFromImage on arbitrary RGBA images (threshold on the red channel; other channels irrelevant)
	for i := 0; i < 150; i++ {
		w, h := r.Range(0, 20), r.Range(0, 6)
		px := r.Bytes(w * h * 4)
		for j := 0; j < len(px); j += 4 {
			switch r.Intn(6) {
			case 0:
				px[j] = 0
			case 1:
				px[j] = 1
			case 2:
				px[j] = 127
			case 3:
				px[j] = 128
			}
		}
		emit("pix.fromimg", w, h, px)
	}
	// one object used for several images: colours set before / after (re)creation, conversions into a used destination
	for i := 0; i < n/2; i++ {
		genPixObj(r, 24, 12)
	}
	// several conversions in a row with every result kept by the caller (slices, image objects, PNG bytes)
	for i := 0; i < n/2; i++ {
		genPixSeq(r, 24, 12)
	}
	// (4) graphics states. Small images: every data length from 0 to two bytes more than needed.
	sw, sh := 6, 3
	if thorough {
		sw, sh = 10, 5
	}
	for t := 0; t <= 2; t++ {
		for H := 0; H <= sh; H++ {
			for W := 0; W <= sw; W++ {
				if t == 0 && W > 0 { // mono: widths around the byte boundaries as well
					W2 := []int{W, W + 6, W + 14}
					for _, w := range W2 {
						for l := 0; l <= gfxNeed(t, w, H)+2; l++ {
							emitGfx(r, t, w, H, l)
						}
					}
					continue
				}
				for l := 0; l <= gfxNeed(t, W, H)+2; l++ {
					emitGfx(r, t, W, H, l)
				}
			}
		}
	}
	// random medium-size states with data longer, equal, shorter
	for i := 0; i < n; i++ {
		t := r.Intn(3)
		W, H := r.Range(0, maxW), r.Range(0, maxH)
		need := gfxNeed(t, W, H)
		l := need
		switch r.Intn(5) {
		case 0:
			l = need + r.Range(1, 9)
		case 1:
			l = r.Range(0, need)
		case 2:
			l = maxInt(0, need-r.Range(1, 3))
		}
		emitGfx(r, t, W, H, l)
	}
	// declared sizes of a few hundred pixels per side (panel displays and beyond)
	big := [][2]int{{64, 32}, {112, 32}, {128, 32}, {176, 32}, {256, 20}, {52, 24}, {48, 24}, {64, 48}, {320, 3}, {3, 300}, {199, 7}, {255, 9}}
	if thorough {
		big = append(big, [][2]int{{128, 64}, {256, 64}, {320, 240}, {300, 200}, {96, 96}, {240, 135}, {33, 257}}...)
	}
	for _, s := range big {
		for t := 0; t <= 2; t++ {
			need := gfxNeed(t, s[0], s[1])
			l := need
			switch r.Intn(3) {
			case 0:
				l = need - r.Range(1, need/3+1)
			case 1:
				l = need + r.Range(1, 40)
			}
			emitGfx(r, t, s[0], s[1], l)
		}
	}
}
