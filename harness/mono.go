package main

import (
	"strconv"

	monogfx "github.com/SKAARHOJ/rawpanel-lib/ibeam_lib_monogfx"
)

// byte(rune) sequence Go's `range` produces for a string (language runtime, not library code)
func runeBytes(s string) []byte {
	o := []byte{}
	for _, r := range s {
		o = append(o, byte(r))
	}
	return o
}

// ---- interpreter: executes one mono.* record on the real library, returns canonical output ----
type monoExec struct{ img *monogfx.MonoImg }

func atoi(s string) int { v, _ := strconv.Atoi(s); return v }
func abool(s string) bool { return s == "1" }

func (m *monoExec) Exec(cmd string, a []string) string {
	if m.img == nil {
		m.img = &monogfx.MonoImg{}
	}
	img := m.img
	p := guarded(func() {
		switch cmd {
		case "mono.new":
			m.img = &monogfx.MonoImg{}
			img = m.img
			img.NewImage(atoi(a[0]), atoi(a[1]))
		case "mono.frombytes":
			// CreateFromBytes on the object in use: the caller's slice becomes the buffer when it is long enough
			// (it may be longer than ceil(w/8)*h); the error for a short slice is the documented behaviour, not a failure
			_ = img.CreateFromBytes(atoi(a[0]), atoi(a[1]), append([]byte{}, unhx(a[2])...))
		case "mono.bbox":
			img.SetBoundingBox(atoi(a[0]), atoi(a[1]), atoi(a[2]), atoi(a[3]))
		case "mono.inv":
			img.InvertPixels(abool(a[0]))
		case "mono.px":
			img.DrawPixel(atoi(a[0]), atoi(a[1]), abool(a[2]))
		case "mono.hline":
			img.DrawFastHLine(atoi(a[0]), atoi(a[1]), atoi(a[2]), abool(a[3]))
		case "mono.vline":
			img.DrawFastVLine(atoi(a[0]), atoi(a[1]), atoi(a[2]), abool(a[3]))
		case "mono.frect":
			img.FillRect(atoi(a[0]), atoi(a[1]), atoi(a[2]), atoi(a[3]), abool(a[4]))
		case "mono.rrect":
			img.DrawRoundRect(atoi(a[0]), atoi(a[1]), atoi(a[2]), atoi(a[3]), atoi(a[4]), abool(a[5]))
		case "mono.frrect":
			img.FillRoundRect(atoi(a[0]), atoi(a[1]), atoi(a[2]), atoi(a[3]), atoi(a[4]), abool(a[5]))
		case "mono.circ":
			img.DrawCircleHelper(atoi(a[0]), atoi(a[1]), atoi(a[2]), atoi(a[3]), abool(a[4]))
		case "mono.fcirc":
			img.FillCircleHelper(atoi(a[0]), atoi(a[1]), atoi(a[2]), atoi(a[3]), atoi(a[4]), abool(a[5]))
		case "mono.bitmap":
			img.DrawBitmap(atoi(a[0]), atoi(a[1]), unhx(a[7]), atoi(a[2]), atoi(a[3]), abool(a[4]), abool(a[5]), abool(a[6]))
		case "mono.font":
			img.SetFont(atoi(a[0]), abool(a[1]))
		case "mono.size":
			img.SetTextSize(atoi(a[0]), atoi(a[1]))
		case "mono.spacing":
			img.SetCharSpacingCompensation(byte(atoi(a[0])))
		case "mono.cursor":
			img.SetCursor(atoi(a[0]), atoi(a[1]))
		case "mono.tcolor":
			img.SetTextColor(abool(a[0]))
		case "mono.wrap":
			img.SetTextWrap(abool(a[0]))
		case "mono.char":
			img.DrawChar(atoi(a[0]), atoi(a[1]), byte(atoi(a[2])), abool(a[3]), abool(a[4]), atoi(a[5]), atoi(a[6]))
		case "mono.text":
			// the record carries byte(rune) values; a string of Latin-1 runes reproduces them exactly
			bs := unhx(a[0])
			rs := make([]rune, len(bs))
			for i, b := range bs {
				rs[i] = rune(b)
			}
			img.RenderText(string(rs))
		default:
			panic("unknown record " + cmd)
		}
	})
	if p != "" {
		return p
	}
	return hx(m.img.GetImgSlice())
}

type monoSess struct {
	w, h int
	r    *Rng
}

// values at the edge of the 32-bit range: coordinates may be this large (the work of an operation depends on its extents
// only, C16.work_bound); all arithmetic on them stays far inside int64 (C16.int64_safe)
func hugeCoord(r *Rng) int {
	return r.Pick(-2147483647, -2147483646, -2147483640, 2147483647, 2147483646, 2147483639, -1073741824, 1073741823)
}

// coordinate in a window well beyond the canvas on every side, biased to edges; now and then at the edge of int32
func (s *monoSess) coord(size int) int {
	r := s.r
	if r.Chance(3) {
		return hugeCoord(r)
	}
	switch r.Intn(10) {
	case 0:
		return r.Pick(-1, 0, 1, size-1, size, size+1)
	case 1:
		return -8 * r.Range(0, 3) // multiples of 8 left of the canvas (row wrap!)
	case 2:
		return r.Range(-3*size-10, 4*size+10)
	default:
		return r.Range(-4, size+4)
	}
}
// extents: huge only on the negative side (a huge positive extent is a loop of that many iterations: outside the
// no-hang domain, see C16.work_bound)
func (s *monoSess) ext(size int) int {
	r := s.r
	if r.Chance(2) {
		return r.Pick(-2147483647, -2147483640, -1073741824)
	}
	switch r.Intn(8) {
	case 0:
		return r.Pick(-5, -1, 0, 1)
	case 1:
		return r.Range(0, 3*size+10)
	default:
		return r.Range(0, size+2)
	}
}

func newMonoSess(r *Rng, w, h int) *monoSess {
	emit("mono.new", w, h)
	return &monoSess{w: w, h: h, r: r}
}

// replace the buffer through CreateFromBytes: slice shorter than, exactly, or longer than ceil(w/8)*h
func (s *monoSess) reload() {
	r := s.r
	w, h := s.w, s.h
	if r.Chance(50) {
		w, h = r.Range(0, 64), r.Range(0, 64)
	}
	need := (w + 7) / 8 * h
	l := need
	switch r.Intn(4) {
	case 0:
		l = r.Range(0, need)
	case 1, 2:
		l = need + r.Range(1, 40)
	}
	s.w, s.h = w, h
	emit("mono.frombytes", w, h, pixBits(r, l))
}

func (s *monoSess) randomGeomOp() {
	r := s.r
	if r.Chance(30) {
		emit("mono.inv", r.Bool())
		return
	}
	if r.Chance(12) {
		s.reload()
		return
	}
	if r.Chance(4) { // bounding box at the edge of int32
		emit("mono.bbox", hugeCoord(r), s.coord(s.h), r.Pick(hugeCoord(r), s.w), r.Pick(hugeCoord(r), s.h))
		return
	}
	switch r.Intn(5) {
	case 4: // origin a multiple of 8 left of / above the canvas (byte-index wrap hazard), box still covering the canvas
		emit("mono.bbox", -8*r.Range(1, 3), r.Range(-9, 2), s.w+r.Range(8, 40), s.h+r.Range(0, 20))
	case 0:
		emit("mono.bbox", 0, 0, s.w, s.h)
	case 1: // inside
		x, y := r.Range(0, s.w/2+1), r.Range(0, s.h/2+1)
		emit("mono.bbox", x, y, r.Range(0, s.w-x+1), r.Range(0, s.h-y+1))
	case 2: // partially / fully outside, negative origin, larger than canvas
		emit("mono.bbox", r.Range(-10, s.w+5), r.Range(-10, s.h+5), r.Range(-3, 2*s.w+5), r.Range(-3, 2*s.h+5))
	case 3:
		emit("mono.bbox", r.Range(-3, 3), r.Range(-3, 3), s.w+r.Range(-3, 3), s.h+r.Range(-3, 3))
	}
}

// shapes that cover the whole canvas (or more): what "clear the display" / "fill the tile" calls look like
func (s *monoSess) coveringOp() {
	r := s.r
	c := r.Chance(60)
	x, y := -r.Pick(0, 0, 0, 1, 5, 8), -r.Pick(0, 0, 0, 1, 5, 8)
	w, h := s.w-x+r.Pick(0, 0, 0, 1, 100), s.h-y+r.Pick(0, 0, 0, 1, 100)
	switch r.Intn(4) {
	case 0, 1:
		emit("mono.frect", x, y, w, h, c)
	case 2:
		emit("mono.frrect", x, y, w, h, r.Pick(0, 1, 3), c)
	case 3:
		emit("mono.rrect", x, y, w, h, r.Pick(0, 2), c)
	}
}

func (s *monoSess) randomDrawOp(withText bool) {
	r := s.r
	c := r.Chance(75)
	if r.Chance(7) {
		s.coveringOp()
		return
	}
	n := 10
	if withText {
		n = 13
	}
	switch r.Intn(n) {
	case 0, 1:
		emit("mono.px", s.coord(s.w), s.coord(s.h), c)
	case 2:
		emit("mono.hline", s.coord(s.w), s.coord(s.h), s.ext(s.w), c)
	case 3:
		emit("mono.vline", s.coord(s.w), s.coord(s.h), s.ext(s.h), c)
	case 4:
		emit("mono.frect", s.coord(s.w), s.coord(s.h), s.ext(s.w), s.ext(s.h), c)
	case 5:
		emit("mono.rrect", s.coord(s.w), s.coord(s.h), s.ext(s.w), s.ext(s.h), r.Range(-2, 6), c)
	case 6:
		emit("mono.frrect", s.coord(s.w), s.coord(s.h), s.ext(s.w), s.ext(s.h), r.Range(-2, 6), c)
	case 7:
		emit("mono.circ", s.coord(s.w), s.coord(s.h), r.Range(-2, 12), r.Range(-1, 16), c)
	case 8:
		emit("mono.fcirc", s.coord(s.w), s.coord(s.h), r.Range(-2, 12), r.Range(-1, 4), r.Range(-4, 10), c)
	case 9:
		x, y, w, h := s.coord(s.w), s.coord(s.h), r.Range(-1, 20), r.Range(-1, 12)
		need := 0
		if w > 0 && h > 0 {
			need = (w + 7) / 8 * h
		}
		l := need
		switch r.Intn(4) {
		case 0:
			l = r.Range(0, need) // shorter than declared
		case 1:
			l = need + r.Range(0, 3)
		}
		emit("mono.bitmap", x, y, w, h, c, r.Bool(), r.Bool(), r.Bytes(l))
	case 10:
		s.randomTextSetup()
	case 11:
		x, y := s.coord(s.w), s.coord(s.h)
		ch := s.randomChar()
		bg := c
		if r.Chance(20) {
			bg = !c
		}
		th, tv := r.Range(1, 4), r.Range(1, 4)
		if r.Chance(10) {
			th, tv = r.Range(-1, 1), r.Range(-1, 1)
		}
		emit("mono.char", x, y, int(ch), c, bg, th, tv)
	case 12:
		emit("mono.cursor", s.coord(s.w), s.coord(s.h))
		emit("mono.text", runeBytes(s.randomString(r.Range(0, 12))))
	}
}

func (s *monoSess) randomChar() byte {
	r := s.r
	switch r.Intn(8) {
	case 0:
		return byte(r.Intn(32))
	case 1:
		return byte(r.Range(127, 255))
	case 2:
		return ' '
	default:
		return byte(r.Range(32, 127))
	}
}

func (s *monoSess) randomString(n int) string {
	r := s.r
	b := []byte{}
	for i := 0; i < n; i++ {
		switch r.Intn(12) {
		case 0:
			b = append(b, "\n"...)
		case 1:
			b = append(b, byte(r.Range(128, 255))) // invalid UTF-8 byte
		case 2:
			b = append(b, []byte(string(rune(r.Range(128, 0x2fff))))...)
		case 3:
			b = append(b, byte(r.Intn(32)))
		default:
			b = append(b, byte(r.Range(32, 126)))
		}
	}
	return string(b)
}

func (s *monoSess) randomTextSetup() {
	r := s.r
	switch r.Intn(6) {
	case 0:
		emit("mono.font", r.Range(-1, 4), r.Bool())
	case 1:
		emit("mono.size", r.Range(-1, 4), r.Range(-1, 4))
	case 2:
		emit("mono.spacing", r.Range(0, 3))
	case 3:
		emit("mono.tcolor", r.Bool())
	case 4:
		emit("mono.wrap", r.Bool())
	case 5:
		emit("mono.cursor", s.coord(s.w), s.coord(s.h))
	}
}

func init() {
	registerExecutor("mono", &monoExec{})
	registerFamily("c16", func(r *Rng, n int, tier string) { genC16(r, n, tier == "thorough") })
}

// C16: sessions of random operation sequences on canvases 0..64 x 0..64
func genC16(r *Rng, sessions int, allSizes bool) {
	sizes := [][2]int{}
	if allSizes {
		for w := 0; w <= 64; w++ {
			for h := 0; h <= 64; h++ {
				sizes = append(sizes, [2]int{w, h})
			}
		}
	}
	for i := 0; i < sessions || (allSizes && i < len(sizes)); i++ {
		var w, h int
		if allSizes && i < len(sizes) {
			w, h = sizes[i][0], sizes[i][1]
		} else {
			switch r.Intn(6) {
			case 0:
				w, h = r.Pick(0, 1, 7, 8, 9, 15, 16, 17, 63, 64), r.Pick(0, 1, 2, 31, 32, 64)
			default:
				w, h = r.Range(0, 64), r.Range(0, 64)
			}
		}
		s := newMonoSess(r, w, h)
		nops := r.Range(8, 24)
		for k := 0; k < nops; k++ {
			if r.Chance(15) {
				s.randomGeomOp()
			} else {
				s.randomDrawOp(true)
			}
		}
	}
}
