package main

// C01 / C02 / inbound half of C06: the system -> panel ("inbound") ASCII converters.
//
// Records
//   ein.msgs  <msgs>                       | <returned strings, comma separated hex>   (or panic:...)
//   ein.rt    <msgs>                       | [ n (<msg> | ~)*  = decoder(encoder(msgs)): the round trip through both converters
//   din.lines [ n <hex line>* J [ k <json oracle entry>*   | [ n (<msg> | ~)*          (or panic:...)
//   ein.seq   [ k <msgs>*                  | 2k results: k snapshots taken at return time, then the k kept slices read after the last call
//   ein.par   [ k <msgs>*                  | the same, calls of even / odd index in two goroutines (convseq.go)
//   ein.reuse [ 2 <msgs> <msgs>            | 2 results; the second call converts the message objects of the first, overwritten in place
//   ein.fields                             | the field names Message.field of the proto definitions reachable from InboundMessage
//   din.seq   [ k ([ n <hex line>*)* J ... | 2k message lists (snapshots, then the kept lists re-read after the last call)
//   din.par   as din.seq                   | the same, calls of even / odd index in two goroutines
//   din.ctx   as din.lines                 | <msgs> ; ( L <hex line> <msgs> )*   what the decoder returns for each distinct line alone
//   din.rx    <regex variable name>        | <hex of the pattern text of the library's compiled regexp object>
//   din.match <regex variable name> <hex line> | - (no match) or M <hex submatch 1> <hex submatch 2> ... (empty = -)
//             (the REAL regexp objects of converterFunctions.go, reached through go:linkname: rxlink.go)
// Canonical token format of messages: see lean/RawPanelVerif/Driver/ConvIn.lean.
// JSON oracle entries (what encoding/json produced for the JSON-carrying lines of the record):
//   S <hex line> <state>      json.Unmarshal(line, &HWCState{})
//   A <hex line> [ n (msg|~)* json.Unmarshal(line, &[]*InboundMessage{})
//   N <hex text> (~ | net)    networkConfigFromString(text) for a line SetNetworkConfig=<text>

import (
	"encoding/base64"
	"encoding/json"
	"fmt"
	"strconv"
	"strings"

	helpers "github.com/SKAARHOJ/rawpanel-lib"
	rwp "github.com/SKAARHOJ/rawpanel-lib/ibeam_rawpanel"
	"google.golang.org/protobuf/proto"
)

func init() {
	registerExecutor("ein", &convInExec{})
	registerExecutor("din", &convInExec{})
	registerFamily("c01", genC01)
	registerFamily("c02", genC02)
	registerFamily("c06in", genC06in)
}

// ------------------------------------------------------------------------------------------------
// canonical printer
// ------------------------------------------------------------------------------------------------

type tw struct{ sb strings.Builder }

func (w *tw) t(s string) {
	if w.sb.Len() > 0 {
		w.sb.WriteByte(' ')
	}
	w.sb.WriteString(s)
}
func (w *tw) i(v int64)     { w.t(strconv.FormatInt(v, 10)) }
func (w *tw) u(v uint32)    { w.t(strconv.FormatUint(uint64(v), 10)) }
func (w *tw) b(v bool)      { w.t(b01(v)) }
func (w *tw) h(s string)    { w.t(hx([]byte(s))) }
func (w *tw) String() string { return w.sb.String() }

func pColorRGBIdx(w *tw, rgb *rwp.ColorRGB, idx *rwp.ColorIndex) {
	w.t("(")
	if rgb == nil {
		w.t("~")
	} else {
		w.t("(")
		w.u(rgb.Red)
		w.u(rgb.Green)
		w.u(rgb.Blue)
		w.t(")")
	}
	if idx == nil {
		w.t("~")
	} else {
		w.t("+" + strconv.Itoa(int(idx.Index)))
	}
	w.t(")")
}

func pFont(w *tw, f *rwp.HWCText_TextStyle_Font) {
	if f == nil {
		w.t("~")
		return
	}
	w.t("(")
	w.i(int64(f.FontFace))
	w.u(f.TextHeight)
	w.u(f.TextWidth)
	w.t(")")
}

func pText(w *tw, t *rwp.HWCText) {
	if t == nil {
		w.t("~")
		return
	}
	w.t("(")
	w.i(int64(t.IntegerValue))
	w.i(int64(t.Formatting))
	w.i(int64(t.StateIcon))
	w.i(int64(t.ModifierIcon))
	w.h(t.Title)
	w.b(t.SolidHeaderBar)
	w.h(t.Textline1)
	w.h(t.Textline2)
	w.i(int64(t.IntegerValue2))
	w.i(int64(t.PairMode))
	if t.Scale == nil {
		w.t("~")
	} else {
		w.t("(")
		w.i(int64(t.Scale.ScaleType))
		w.i(int64(t.Scale.RangeLow))
		w.i(int64(t.Scale.RangeHigh))
		w.i(int64(t.Scale.LimitLow))
		w.i(int64(t.Scale.LimitHigh))
		w.t(")")
	}
	if t.TextStyling == nil {
		w.t("~")
	} else {
		s := t.TextStyling
		w.t("(")
		pFont(w, s.TitleFont)
		pFont(w, s.TextFont)
		w.b(s.FixedWidth)
		w.u(s.TitleBarPadding)
		w.u(s.ExtraCharacterSpacing)
		w.u(s.UnformattedFontSize)
		w.t(")")
	}
	w.b(t.Inverted)
	if t.PixelColor == nil {
		w.t("~")
	} else {
		pColorRGBIdx(w, t.PixelColor.ColorRGB, t.PixelColor.ColorIndex)
	}
	if t.BackgroundColor == nil {
		w.t("~")
	} else {
		pColorRGBIdx(w, t.BackgroundColor.ColorRGB, t.BackgroundColor.ColorIndex)
	}
	w.t(")")
}

func pState(w *tw, s *rwp.HWCState) {
	if s == nil {
		s = &rwp.HWCState{}
	}
	w.t("S")
	w.t("[")
	w.i(int64(len(s.HWCIDs)))
	for _, id := range s.HWCIDs {
		w.u(id)
	}
	if s.HWCMode == nil {
		w.t("~")
	} else {
		w.t("(")
		w.i(int64(s.HWCMode.State))
		w.b(s.HWCMode.Output)
		w.u(s.HWCMode.BlinkPattern)
		w.t(")")
	}
	if s.HWCColor == nil {
		w.t("~")
	} else {
		pColorRGBIdx(w, s.HWCColor.ColorRGB, s.HWCColor.ColorIndex)
	}
	if s.HWCExtended == nil {
		w.t("~")
	} else {
		w.t("(")
		w.i(int64(s.HWCExtended.Interpretation))
		w.u(s.HWCExtended.Value)
		w.t(")")
	}
	pText(w, s.HWCText)
	if s.HWCGfx == nil {
		w.t("~")
	} else {
		g := s.HWCGfx
		w.t("(")
		w.i(int64(g.ImageType))
		w.u(g.W)
		w.u(g.H)
		w.b(g.XYoffset)
		w.u(g.X)
		w.u(g.Y)
		w.t(hx(g.ImageData))
		w.t(")")
	}
	if s.PublishRawADCValues == nil {
		w.t("~")
	} else {
		w.t("+" + b01(s.PublishRawADCValues.Enabled))
	}
	if s.Processors == nil {
		w.t("~")
	} else {
		j, _ := json.Marshal(s)
		w.t("+" + hx(j))
	}
}

func pNet(w *tw, n *rwp.NetworkConfig, withJSON bool) {
	if n == nil {
		w.t("~")
		return
	}
	w.t("(")
	w.b(n.Dhcp)
	w.h(n.Address)
	w.h(n.Netmask)
	w.h(n.Gateway)
	w.h(n.FirstDns)
	w.h(n.SecondDns)
	w.b(n.NoDefaultRoute)
	if withJSON {
		j, err := json.Marshal(n)
		if err != nil {
			j = []byte{}
		}
		w.t(hx(j))
	} else {
		w.t("-")
	}
	w.t(")")
}

func optU(w *tw, present bool, v uint32) {
	if !present {
		w.t("~")
	} else {
		w.t("+" + strconv.FormatUint(uint64(v), 10))
	}
}
func optI(w *tw, present bool, v int32) {
	if !present {
		w.t("~")
	} else {
		w.t("+" + strconv.Itoa(int(v)))
	}
}

func pCmd(w *tw, c *rwp.Command, withJSON bool) {
	if c == nil {
		w.t("~")
		return
	}
	w.t("C")
	bits := []bool{c.ActivatePanel, c.SendPanelInfo, c.ReportHWCavailability, c.SendPanelTopology, c.SendBurninProfile,
		c.SendCalibrationProfile, c.SendNetworkConfig, c.SendRegisters, c.GetConnections, c.GetRunTimeStats, c.ClearAll,
		c.ClearLEDs, c.ClearDisplays, c.GetSleepTimeout, c.WakeUp, c.Reboot}
	var sb strings.Builder
	for _, b := range bits {
		sb.WriteString(b01(b))
	}
	w.t(sb.String())
	if c.PanelBrightness == nil {
		w.t("~")
	} else {
		w.t("(")
		w.u(c.PanelBrightness.LEDs)
		w.u(c.PanelBrightness.OLEDs)
		w.t(")")
	}
	if c.SetCalibrationProfile == nil {
		w.t("~")
	} else {
		w.t("+" + hx([]byte(c.SetCalibrationProfile.Json)))
	}
	pNet(w, c.SetNetworkConfig, withJSON)
	optI(w, c.SimulateEnvironmentalHealth != nil, int32(c.SimulateEnvironmentalHealth.GetRunMode()))
	optU(w, c.SetSleepTimeout != nil, c.SetSleepTimeout.GetValue())
	optI(w, c.SetSleepMode != nil, int32(c.SetSleepMode.GetMode()))
	optI(w, c.SetSleepScreenSaver != nil, int32(c.SetSleepScreenSaver.GetType()))
	optU(w, c.SetDimmedGain != nil, c.SetDimmedGain.GetValue())
	optU(w, c.SetHeartBeatTimer != nil, c.SetHeartBeatTimer.GetValue())
	optU(w, c.PublishSystemStat != nil, c.PublishSystemStat.GetPeriodSec())
	optI(w, c.LoadCPU != nil, int32(c.LoadCPU.GetLevel()))
	if c.SetWebserverEnabled == nil {
		w.t("~")
	} else {
		w.t("+" + b01(c.SetWebserverEnabled.Enabled))
	}
	if c.JSONconfig == nil {
		w.t("~")
	} else {
		w.t("+" + b01(c.JSONconfig.Outbound))
	}
}

func pMsg(w *tw, m *rwp.InboundMessage, withJSON bool) {
	if m == nil {
		w.t("~")
		return
	}
	w.t("M")
	w.i(int64(m.FlowMessage))
	pCmd(w, m.Command, withJSON)
	w.t("[")
	w.i(int64(len(m.States)))
	for _, s := range m.States {
		pState(w, s)
	}
	w.t("[")
	w.i(int64(len(m.Registers)))
	for _, r := range m.Registers {
		if r == nil {
			r = &rwp.Register{}
		}
		w.t("R")
		w.i(int64(r.Reg))
		w.h(r.Id)
		w.u(r.Value)
	}
}

func pMsgs(w *tw, ms []*rwp.InboundMessage, withJSON bool) {
	w.t("[")
	w.i(int64(len(ms)))
	for _, m := range ms {
		pMsg(w, m, withJSON)
	}
}

func msgsTokens(ms []*rwp.InboundMessage, withJSON bool) []string {
	w := &tw{}
	pMsgs(w, ms, withJSON)
	return strings.Fields(w.String())
}

// ------------------------------------------------------------------------------------------------
// token parser (replay: rebuild the messages from a record)
// ------------------------------------------------------------------------------------------------

type tr struct {
	toks []string
	pos  int
}

func (r *tr) next() string {
	if r.pos >= len(r.toks) {
		panic("record truncated")
	}
	t := r.toks[r.pos]
	r.pos++
	return t
}
func (r *tr) peek() string {
	if r.pos >= len(r.toks) {
		panic("record truncated")
	}
	return r.toks[r.pos]
}
func (r *tr) expect(s string) {
	if t := r.next(); t != s {
		panic("record: expected " + s + " got " + t)
	}
}
func (r *tr) i64() int64 {
	v, err := strconv.ParseInt(r.next(), 10, 64)
	if err != nil {
		panic("record: bad int")
	}
	return v
}
func (r *tr) u32() uint32 {
	v, err := strconv.ParseUint(r.next(), 10, 64)
	if err != nil {
		panic("record: bad uint")
	}
	return uint32(v)
}
func (r *tr) bool() bool { return r.next() == "1" }
func (r *tr) hex() string { return string(unhx(r.next())) }

// "~" -> false ; "(" -> true (caller parses body and the closing ")")
func (r *tr) group() bool {
	t := r.next()
	if t == "~" {
		return false
	}
	if t != "(" {
		panic("record: expected group, got " + t)
	}
	return true
}

// "~" -> "", false ; "+x" -> x, true
func (r *tr) plus() (string, bool) {
	t := r.next()
	if t == "~" {
		return "", false
	}
	if !strings.HasPrefix(t, "+") {
		panic("record: expected +value, got " + t)
	}
	return t[1:], true
}
func atoi64(s string) int64 {
	v, err := strconv.ParseInt(s, 10, 64)
	if err != nil {
		panic("record: bad number " + s)
	}
	return v
}

func rColor(r *tr) (*rwp.ColorRGB, *rwp.ColorIndex) {
	var rgb *rwp.ColorRGB
	var idx *rwp.ColorIndex
	if r.group() {
		rgb = &rwp.ColorRGB{Red: r.u32(), Green: r.u32(), Blue: r.u32()}
		r.expect(")")
	}
	if s, ok := r.plus(); ok {
		idx = &rwp.ColorIndex{Index: rwp.ColorIndex_Colors(atoi64(s))}
	}
	r.expect(")")
	return rgb, idx
}

func rFont(r *tr) *rwp.HWCText_TextStyle_Font {
	if !r.group() {
		return nil
	}
	f := &rwp.HWCText_TextStyle_Font{FontFace: rwp.HWCText_TextStyle_Font_FontFaceE(r.i64()), TextHeight: r.u32(), TextWidth: r.u32()}
	r.expect(")")
	return f
}

func rText(r *tr) *rwp.HWCText {
	if !r.group() {
		return nil
	}
	t := &rwp.HWCText{}
	t.IntegerValue = int32(r.i64())
	t.Formatting = rwp.HWCText_FormattingE(r.i64())
	t.StateIcon = rwp.HWCText_StateIconE(r.i64())
	t.ModifierIcon = rwp.HWCText_ModifierIconE(r.i64())
	t.Title = r.hex()
	t.SolidHeaderBar = r.bool()
	t.Textline1 = r.hex()
	t.Textline2 = r.hex()
	t.IntegerValue2 = int32(r.i64())
	t.PairMode = rwp.HWCText_PairModeE(r.i64())
	if r.group() {
		t.Scale = &rwp.HWCText_ScaleM{ScaleType: rwp.HWCText_ScaleM_ScaleTypeE(r.i64()), RangeLow: int32(r.i64()), RangeHigh: int32(r.i64()), LimitLow: int32(r.i64()), LimitHigh: int32(r.i64())}
		r.expect(")")
	}
	if r.group() {
		s := &rwp.HWCText_TextStyle{}
		s.TitleFont = rFont(r)
		s.TextFont = rFont(r)
		s.FixedWidth = r.bool()
		s.TitleBarPadding = r.u32()
		s.ExtraCharacterSpacing = r.u32()
		s.UnformattedFontSize = r.u32()
		r.expect(")")
		t.TextStyling = s
	}
	t.Inverted = r.bool()
	if r.group() {
		rgb, idx := rColor(r)
		t.PixelColor = &rwp.Color{ColorRGB: rgb, ColorIndex: idx}
	}
	if r.group() {
		rgb, idx := rColor(r)
		t.BackgroundColor = &rwp.Color{ColorRGB: rgb, ColorIndex: idx}
	}
	r.expect(")")
	return t
}

func rState(r *tr) *rwp.HWCState {
	r.expect("S")
	s := &rwp.HWCState{}
	r.expect("[")
	n := int(r.i64())
	if n > 0 {
		s.HWCIDs = make([]uint32, n)
		for i := range s.HWCIDs {
			s.HWCIDs[i] = r.u32()
		}
	}
	if r.group() {
		s.HWCMode = &rwp.HWCMode{State: rwp.HWCMode_StateE(r.i64()), Output: r.bool(), BlinkPattern: r.u32()}
		r.expect(")")
	}
	if r.group() {
		rgb, idx := rColor(r)
		s.HWCColor = &rwp.HWCColor{ColorRGB: rgb, ColorIndex: idx}
	}
	if r.group() {
		s.HWCExtended = &rwp.HWCExtended{Interpretation: rwp.HWCExtended_InterpretationE(r.i64()), Value: r.u32()}
		r.expect(")")
	}
	s.HWCText = rText(r)
	if r.group() {
		g := &rwp.HWCGfx{ImageType: rwp.HWCGfx_ImageTypeE(r.i64()), W: r.u32(), H: r.u32(), XYoffset: r.bool(), X: r.u32(), Y: r.u32()}
		d := unhx(r.next())
		if len(d) > 0 {
			g.ImageData = d
		}
		r.expect(")")
		s.HWCGfx = g
	}
	if v, ok := r.plus(); ok {
		s.PublishRawADCValues = &rwp.PublishRawADCValues{Enabled: v == "1"}
	}
	if v, ok := r.plus(); ok {
		// Processors: rebuild from the JSON text the record carries
		tmp := &rwp.HWCState{}
		json.Unmarshal(unhx(v), tmp)
		s.Processors = tmp.Processors
		if s.Processors == nil {
			s.Processors = &rwp.Processors{}
		}
	}
	return s
}

func rNet(r *tr) *rwp.NetworkConfig {
	if !r.group() {
		return nil
	}
	n := &rwp.NetworkConfig{Dhcp: r.bool(), Address: r.hex(), Netmask: r.hex(), Gateway: r.hex(), FirstDns: r.hex(), SecondDns: r.hex(), NoDefaultRoute: r.bool()}
	r.next() // json text (recomputed by the implementation)
	r.expect(")")
	return n
}

func rCmd(r *tr) *rwp.Command {
	t := r.next()
	if t == "~" {
		return nil
	}
	if t != "C" {
		panic("record: expected C")
	}
	c := &rwp.Command{}
	bits := r.next()
	if len(bits) != 16 {
		panic("record: 16 flags expected")
	}
	b := func(i int) bool { return bits[i] == '1' }
	c.ActivatePanel, c.SendPanelInfo, c.ReportHWCavailability, c.SendPanelTopology = b(0), b(1), b(2), b(3)
	c.SendBurninProfile, c.SendCalibrationProfile, c.SendNetworkConfig, c.SendRegisters = b(4), b(5), b(6), b(7)
	c.GetConnections, c.GetRunTimeStats, c.ClearAll, c.ClearLEDs = b(8), b(9), b(10), b(11)
	c.ClearDisplays, c.GetSleepTimeout, c.WakeUp, c.Reboot = b(12), b(13), b(14), b(15)
	if r.group() {
		c.PanelBrightness = &rwp.Brightness{LEDs: r.u32(), OLEDs: r.u32()}
		r.expect(")")
	}
	if v, ok := r.plus(); ok {
		c.SetCalibrationProfile = &rwp.CalibrationProfile{Json: string(unhx(v))}
	}
	c.SetNetworkConfig = rNet(r)
	if v, ok := r.plus(); ok {
		c.SimulateEnvironmentalHealth = &rwp.Environment{RunMode: rwp.Environment_RunModeE(atoi64(v))}
	}
	if v, ok := r.plus(); ok {
		c.SetSleepTimeout = &rwp.SleepTimeout{Value: uint32(atoi64(v))}
	}
	if v, ok := r.plus(); ok {
		c.SetSleepMode = &rwp.SleepMode{Mode: rwp.SleepMode_SlpMode(atoi64(v))}
	}
	if v, ok := r.plus(); ok {
		c.SetSleepScreenSaver = &rwp.SleepScreenSaver{Type: rwp.SleepScreenSaver_SlpScrSaver(atoi64(v))}
	}
	if v, ok := r.plus(); ok {
		c.SetDimmedGain = &rwp.DimmedGain{Value: uint32(atoi64(v))}
	}
	if v, ok := r.plus(); ok {
		c.SetHeartBeatTimer = &rwp.HeartBeatTimer{Value: uint32(atoi64(v))}
	}
	if v, ok := r.plus(); ok {
		c.PublishSystemStat = &rwp.PublishSystemStat{PeriodSec: uint32(atoi64(v))}
	}
	if v, ok := r.plus(); ok {
		c.LoadCPU = &rwp.LoadCPU{Level: rwp.LoadCPU_LevelE(atoi64(v))}
	}
	if v, ok := r.plus(); ok {
		c.SetWebserverEnabled = &rwp.WebserverState{Enabled: v == "1"}
	}
	if v, ok := r.plus(); ok {
		c.JSONconfig = &rwp.JSONconfig{Outbound: v == "1"}
	}
	return c
}

func rMsg(r *tr) *rwp.InboundMessage {
	if r.peek() == "~" {
		r.next()
		return nil
	}
	r.expect("M")
	m := &rwp.InboundMessage{FlowMessage: rwp.InboundMessage_FlowMsg(r.i64())}
	m.Command = rCmd(r)
	r.expect("[")
	n := int(r.i64())
	for i := 0; i < n; i++ {
		m.States = append(m.States, rState(r))
	}
	r.expect("[")
	n = int(r.i64())
	for i := 0; i < n; i++ {
		r.expect("R")
		m.Registers = append(m.Registers, &rwp.Register{Reg: rwp.Register_RegisterE(r.i64()), Id: r.hex(), Value: r.u32()})
	}
	return m
}

func rMsgs(r *tr) []*rwp.InboundMessage {
	r.expect("[")
	n := int(r.i64())
	ms := make([]*rwp.InboundMessage, 0, n)
	for i := 0; i < n; i++ {
		ms = append(ms, rMsg(r))
	}
	return ms
}

// ------------------------------------------------------------------------------------------------
// executor
// ------------------------------------------------------------------------------------------------

type convInExec struct{}

func (e *convInExec) Exec(cmd string, a []string) string { return withDebugVariant(cmd, a, e.exec1) }

func (e *convInExec) exec1(cmd string, a []string) string {
	res := ""
	p := guarded(func() {
		switch cmd {
		case "ein.msgs":
			ms := rMsgs(&tr{toks: a})
			res = hxList(helpers.InboundMessagesToRawPanelASCIIstrings(ms))
			if res == "" {
				res = "-"
			}
		case "ein.rt":
			ms := rMsgs(&tr{toks: a})
			out := helpers.RawPanelASCIIstringsToInboundMessages(helpers.InboundMessagesToRawPanelASCIIstrings(ms))
			w := &tw{}
			pMsgs(w, out, false)
			res = w.String()
		case "din.lines":
			r := &tr{toks: a}
			r.expect("[")
			n := int(r.i64())
			lines := make([]string, n)
			for i := range lines {
				lines[i] = string(unhx(r.next()))
			}
			out := helpers.RawPanelASCIIstringsToInboundMessages(lines)
			w := &tw{}
			pMsgs(w, out, false)
			res = w.String()
		case "ein.seq", "ein.par":
			lists := rMsgsLists(&tr{toks: a})
			held := make([][]string, len(lists))
			call := func(i int) { held[i] = helpers.InboundMessagesToRawPanelASCIIstrings(lists[i]) }
			render := func(i int) string { return hxListDash(held[i]) }
			if cmd == "ein.par" {
				res = strings.Join(runPar(len(lists), call, render), " ")
			} else {
				res = strings.Join(runSeq(len(lists), call, render), " ")
			}
		case "ein.reuse":
			lists := rMsgsLists(&tr{toks: a})
			if len(lists) != 2 {
				panic("ein.reuse takes two message lists")
			}
			r1 := hxListDash(helpers.InboundMessagesToRawPanelASCIIstrings(lists[0]))
			second := reuseObjects(lists[0], lists[1])
			r2 := hxListDash(helpers.InboundMessagesToRawPanelASCIIstrings(second))
			res = r1 + " " + r2
		case "ein.fields":
			res = strings.Join(protoFieldNames((&rwp.InboundMessage{}).ProtoReflect().Descriptor()), " ")
		case "din.seq", "din.par":
			r := &tr{toks: a}
			r.expect("[")
			k := int(r.i64())
			batches := make([][]string, k)
			for b := range batches {
				batches[b] = rLines(r)
			}
			held := make([][]*rwp.InboundMessage, k)
			call := func(i int) { held[i] = helpers.RawPanelASCIIstringsToInboundMessages(batches[i]) }
			render := func(i int) string {
				w := &tw{}
				pMsgs(w, held[i], false)
				return w.String()
			}
			if cmd == "din.par" {
				res = strings.Join(runPar(k, call, render), " ")
			} else {
				res = strings.Join(runSeq(k, call, render), " ")
			}
		case "din.ctx":
			lines := rLines(&tr{toks: a})
			w := &tw{}
			pMsgs(w, helpers.RawPanelASCIIstringsToInboundMessages(lines), false)
			w.t(";")
			seen := map[string]bool{}
			for _, l := range lines {
				if seen[l] {
					continue
				}
				seen[l] = true
				w.t("L")
				w.h(l)
				pMsgs(w, helpers.RawPanelASCIIstringsToInboundMessages([]string{l}), false)
			}
			res = w.String()
		case "din.rx":
			rx := libRegex(a[0])
			if rx == nil {
				panic("unknown regex " + a[0])
			}
			res = hx([]byte(rx.String()))
		case "din.match":
			res = rxMatchRecord(a[0], string(unhx(a[1])))
		default:
			panic("unknown record " + cmd)
		}
	})
	if p != "" {
		return p
	}
	return res
}

func emitMsgs(ms []*rwp.InboundMessage) string {
	return emitS("ein.msgs", msgsTokens(ms, true))
}

// `[ n <hex line>*`
func rLines(r *tr) []string {
	r.expect("[")
	n := int(r.i64())
	lines := make([]string, n)
	for i := range lines {
		lines[i] = string(unhx(r.next()))
	}
	return lines
}

// `[ k <msgs>*`
func rMsgsLists(r *tr) [][]*rwp.InboundMessage {
	r.expect("[")
	k := int(r.i64())
	lists := make([][]*rwp.InboundMessage, k)
	for i := range lists {
		lists[i] = rMsgs(r)
	}
	return lists
}

func hxListDash(ls []string) string {
	if len(ls) == 0 {
		return "-"
	}
	return hxList(ls)
}

// ein.seq / ein.par / ein.reuse: several message lists in one record
func emitMsgsLists(cmd string, lists ...[]*rwp.InboundMessage) string {
	w := &tw{}
	w.t("[")
	w.i(int64(len(lists)))
	for _, ms := range lists {
		pMsgs(w, ms, true)
	}
	return emitS(cmd, strings.Fields(w.String()))
}

// lines + the JSON oracle entries encoding/json yields for them
func emitLines(lines []string) string { return emitLinesAs("din.lines", lines) }

// din.seq: several batches, one oracle table
func emitLineBatches(batches ...[]string) string { return emitLineBatchesAs("din.seq", batches...) }

func emitLineBatchesAs(cmd string, batches ...[]string) string {
	w := &tw{}
	w.t("[")
	w.i(int64(len(batches)))
	var all []string
	for _, b := range batches {
		w.t("[")
		w.i(int64(len(b)))
		for _, l := range b {
			w.h(l)
		}
		all = append(all, b...)
	}
	return emitS(cmd, append(strings.Fields(w.String()), jsonOracle(all)...))
}

func emitLinesAs(cmd string, lines []string) string {
	w := &tw{}
	w.t("[")
	w.i(int64(len(lines)))
	for _, l := range lines {
		w.h(l)
	}
	return emitS(cmd, append(strings.Fields(w.String()), jsonOracle(lines)...))
}

// `J [ k <entry>*`: what encoding/json yields for the JSON-carrying lines
func jsonOracle(lines []string) []string {
	w := &tw{}
	w.t("J")
	var entries []string
	seen := map[string]bool{}
	for _, l := range lines {
		if seen[l] {
			continue
		}
		switch {
		case strings.HasPrefix(l, "{"):
			seen[l] = true
			st := &rwp.HWCState{}
			json.Unmarshal([]byte(l), st)
			e := &tw{}
			e.t("S")
			e.h(l)
			pState(e, st)
			entries = append(entries, e.String())
		case strings.HasPrefix(l, "["):
			seen[l] = true
			ms := []*rwp.InboundMessage{}
			json.Unmarshal([]byte(l), &ms)
			e := &tw{}
			e.t("A")
			e.h(l)
			pMsgs(e, ms, false)
			entries = append(entries, e.String())
		case strings.HasPrefix(l, "SetNetworkConfig="):
			seen[l] = true
			txt := l[len("SetNetworkConfig="):]
			nc := &rwp.NetworkConfig{}
			if err := json.Unmarshal([]byte(txt), nc); err != nil {
				nc = nil
			}
			e := &tw{}
			e.t("N")
			e.h(txt)
			pNet(e, nc, false)
			entries = append(entries, e.String())
		}
	}
	w.t("[")
	w.i(int64(len(entries)))
	for _, e := range entries {
		w.t(e)
	}
	return strings.Fields(w.String())
}

// ------------------------------------------------------------------------------------------------
// message generators (field by field: presence pattern x boundary values x random)
// ------------------------------------------------------------------------------------------------

type mgen struct {
	r    *Rng
	wild bool // out-of-range enums / integers, LF and '|' in strings, odd presence patterns (C06 stream)
	// out-of-range enums and bit fields, both colour alternatives, second line without pair mode, image without data,
	// negative enum arguments - but strings stay free of '|' and LF and register ids in their alphabet
	// (C01: Spec.inWireDomain, the domain of enc_sound_masked)
	wide bool
	// coinciding values: every numeric draw repeats the previous numeric draw with probability 1/3 and every string draw
	// the previous string (X == Y, RangeLow == RangeHigh, Title == Textline1, the same id twice, LEDs == OLEDs ...)
	coin  bool
	lastN uint32
	lastS string
}

// out-of-range values wanted
func (g *mgen) oor() bool { return g.wild || g.wide }

var u32Bound = []uint32{0, 1, 2, 3, 15, 16, 84, 85, 127, 128, 169, 170, 254, 255, 256, 4095, 4096, 65535, 65536, 1<<31 - 1, 1 << 31, 1<<32 - 1}
var i32Bound = []int32{0, 1, -1, 2, 7, 9, 10, 99, 100, -100, 32767, -32768, 1<<31 - 1, -1 << 31}

func (g *mgen) u32() uint32 {
	if g.coin && g.r.Chance(33) {
		return g.lastN
	}
	g.lastN = g.u32fresh()
	return g.lastN
}
func (g *mgen) u32fresh() uint32 {
	switch g.r.Intn(3) {
	case 0:
		return u32Bound[g.r.Intn(len(u32Bound))]
	case 1:
		return uint32(g.r.Intn(300))
	}
	return uint32(g.r.U64())
}
func (g *mgen) i32() int32 {
	if g.coin && g.r.Chance(33) {
		return int32(g.lastN)
	}
	v := g.i32fresh()
	g.lastN = uint32(v)
	return v
}
func (g *mgen) i32fresh() int32 {
	switch g.r.Intn(3) {
	case 0:
		return i32Bound[g.r.Intn(len(i32Bound))]
	case 1:
		return int32(g.r.Range(-300, 300))
	}
	return int32(uint32(g.r.U64()))
}

// enum in 0..max; wild: sometimes negative / far out of range
func (g *mgen) enum(max int) int32 {
	if g.oor() && g.r.Chance(25) {
		switch g.r.Intn(4) {
		case 0:
			return -1
		case 1:
			return int32(max + 1 + g.r.Intn(20))
		case 2:
			return -1 << 31
		}
		return int32(uint32(g.r.U64()))
	}
	return int32(g.r.Intn(max + 1))
}

// below n; wild: sometimes anything
func (g *mgen) below(n int) uint32 {
	if g.coin && g.r.Chance(33) {
		return g.lastN % uint32(n)
	}
	v := g.belowFresh(n)
	g.lastN = v
	return v
}
func (g *mgen) belowFresh(n int) uint32 {
	if g.oor() && g.r.Chance(25) {
		return g.u32()
	}
	if g.r.Chance(30) {
		return uint32(n - 1)
	}
	return uint32(g.r.Intn(n))
}

var textAtoms = []string{"A", "z", "0", "9", " ", "  ", "=", ":", "#", ",", "/", "-", "+", "é", "ø", "漢", " ", "\t", "\r", "\"", "\\", "{", "[", "HWC#1=2", "~", "\x80", "\xff", "\xc3"}

func (g *mgen) str(maxAtoms int) string {
	if g.coin && g.r.Chance(33) {
		return g.lastS
	}
	g.lastS = g.strFresh(maxAtoms)
	return g.lastS
}
func (g *mgen) strFresh(maxAtoms int) string {
	if g.r.Chance(25) {
		return ""
	}
	n := g.r.Range(1, maxAtoms)
	var sb strings.Builder
	for i := 0; i < n; i++ {
		if g.wild && g.r.Chance(10) {
			sb.WriteString([]string{"|", "\n", "||", "\r\n"}[g.r.Intn(4)])
			continue
		}
		if g.r.Chance(50) {
			c := byte(g.r.Range(33, 126))
			if c == '|' {
				c = '!'
			}
			sb.WriteByte(c)
		} else {
			sb.WriteString(textAtoms[g.r.Intn(len(textAtoms))])
		}
	}
	return sb.String()
}

func (g *mgen) color() (*rwp.ColorRGB, *rwp.ColorIndex) {
	switch g.r.Intn(8) {
	case 0:
		if g.oor() {
			return nil, nil
		}
		fallthrough
	case 1, 2, 3:
		ch := func() uint32 {
			if g.r.Chance(70) {
				return uint32(g.r.Intn(256))
			}
			return g.u32()
		}
		return &rwp.ColorRGB{Red: ch(), Green: ch(), Blue: ch()}, nil
	case 4:
		if g.oor() {
			return &rwp.ColorRGB{Red: g.u32()}, &rwp.ColorIndex{Index: rwp.ColorIndex_Colors(g.enum(31))}
		}
		fallthrough
	default:
		return nil, &rwp.ColorIndex{Index: rwp.ColorIndex_Colors(g.enum(31))}
	}
}

func (g *mgen) font() *rwp.HWCText_TextStyle_Font {
	if g.r.Chance(40) {
		return nil
	}
	return &rwp.HWCText_TextStyle_Font{FontFace: rwp.HWCText_TextStyle_Font_FontFaceE(g.enum(7)), TextHeight: g.below(4), TextWidth: g.below(4)}
}

func (g *mgen) text() *rwp.HWCText {
	t := &rwp.HWCText{}
	if g.r.Chance(4) {
		return t // the all-default message
	}
	p := func() bool { return g.r.Chance(45) }
	if p() {
		t.IntegerValue = g.i32()
	}
	if p() {
		t.Formatting = rwp.HWCText_FormattingE(g.enum(12))
		if g.r.Chance(30) {
			t.Formatting = rwp.HWCText_FormattingE(g.r.Pick(7, 10, 11))
		}
	}
	if p() {
		t.StateIcon = rwp.HWCText_StateIconE(g.enum(3))
	}
	if p() {
		t.ModifierIcon = rwp.HWCText_ModifierIconE(g.enum(7))
	}
	if p() {
		t.Title = g.str(6)
	}
	t.SolidHeaderBar = g.r.Bool()
	if p() {
		t.Textline1 = g.str(6)
	}
	if p() {
		t.Textline2 = g.str(6)
	}
	if p() {
		t.IntegerValue2 = g.i32()
	}
	if p() {
		t.PairMode = rwp.HWCText_PairModeE(g.enum(4))
	}
	if !g.oor() && (t.Textline2 != "" || t.IntegerValue2 != 0) && t.PairMode < 1 && !g.r.Chance(3) {
		t.PairMode = rwp.HWCText_PairModeE(g.r.Range(1, 4))
	}
	if p() {
		t.Scale = &rwp.HWCText_ScaleM{}
		if g.r.Chance(85) {
			t.Scale.ScaleType = rwp.HWCText_ScaleM_ScaleTypeE(g.enum(3))
			t.Scale.RangeLow, t.Scale.RangeHigh, t.Scale.LimitLow, t.Scale.LimitHigh = g.i32(), g.i32(), g.i32(), g.i32()
		}
	}
	if p() {
		s := &rwp.HWCText_TextStyle{TitleFont: g.font(), TextFont: g.font(), FixedWidth: g.r.Bool()}
		if p() {
			s.TitleBarPadding = g.below(4)
		}
		if p() {
			s.ExtraCharacterSpacing = g.below(8)
		}
		if p() {
			s.UnformattedFontSize = g.u32()
		}
		t.TextStyling = s
	}
	t.Inverted = g.r.Chance(30)
	if g.r.Chance(30) {
		rgb, idx := g.color()
		t.PixelColor = &rwp.Color{ColorRGB: rgb, ColorIndex: idx}
	}
	if g.r.Chance(30) {
		rgb, idx := g.color()
		t.BackgroundColor = &rwp.Color{ColorRGB: rgb, ColorIndex: idx}
	}
	return t
}

var gfxLens = []int{1, 2, 3, 4, 5, 6, 169, 170, 171, 172, 339, 340, 341, 342, 510, 511, 256, 1024}

func (g *mgen) gfx() *rwp.HWCGfx {
	x := &rwp.HWCGfx{}
	if g.r.Chance(4) {
		return x
	}
	x.ImageType = rwp.HWCGfx_ImageTypeE(g.enum(2))
	if g.r.Chance(70) {
		x.W, x.H = uint32(g.r.Range(1, 256)), uint32(g.r.Range(1, 128))
	} else {
		x.W, x.H = g.u32(), g.u32()
	}
	if g.r.Chance(40) {
		x.XYoffset = true
	}
	if g.r.Chance(50) {
		x.X, x.Y = g.u32(), g.u32()
	}
	n := 0
	switch g.r.Intn(4) {
	case 0:
		n = gfxLens[g.r.Intn(len(gfxLens))]
	case 1:
		n = g.r.Range(1, 40)
	case 2:
		n = g.r.Range(1, 600)
	case 3:
		if g.oor() {
			n = 0
		} else {
			n = g.r.Range(160, 180)
		}
	}
	if n > 0 {
		x.ImageData = g.r.Bytes(n)
	}
	return x
}

func (g *mgen) ids() []uint32 {
	n := 1
	switch g.r.Intn(6) {
	case 0:
		n = 2
	case 1:
		n = g.r.Range(2, 5)
	case 2:
		if g.wild {
			n = 0
		}
	}
	ids := make([]uint32, n)
	for i := range ids {
		if g.coin && i > 0 && g.r.Chance(33) {
			ids[i] = ids[i-1]
		} else if g.r.Chance(80) {
			ids[i] = uint32(g.r.Range(0, 300))
		} else {
			ids[i] = g.u32()
		}
	}
	return ids
}

func (g *mgen) state() *rwp.HWCState {
	s := &rwp.HWCState{HWCIDs: g.ids()}
	p := func() bool { return g.r.Chance(35) }
	if p() {
		s.HWCMode = &rwp.HWCMode{State: rwp.HWCMode_StateE(g.enum(5)), Output: g.r.Bool(), BlinkPattern: g.below(16)}
	}
	if p() {
		rgb, idx := g.color()
		s.HWCColor = &rwp.HWCColor{ColorRGB: rgb, ColorIndex: idx}
	}
	if p() {
		s.HWCExtended = &rwp.HWCExtended{Interpretation: rwp.HWCExtended_InterpretationE(g.enum(15)), Value: g.below(4096)}
	}
	if p() {
		s.HWCText = g.text()
	}
	if g.r.Chance(20) {
		s.HWCGfx = g.gfx()
	}
	if g.r.Chance(20) {
		s.PublishRawADCValues = &rwp.PublishRawADCValues{Enabled: g.r.Bool()}
	}
	if s.HWCMode == nil && s.HWCColor == nil && s.HWCExtended == nil && s.HWCText == nil && s.HWCGfx == nil && s.PublishRawADCValues == nil {
		s.HWCText = g.text()
	}
	return s
}

const upperDigits = "ABCDEFGHIJKLMNOPQRSTUVWXYZ0123456789"

func (g *mgen) regID(kind int32) string {
	n := g.r.Intn(5)
	var sb strings.Builder
	for i := 0; i < n; i++ {
		if kind == 1 {
			sb.WriteByte(byte('0' + g.r.Intn(10)))
		} else {
			sb.WriteByte(upperDigits[g.r.Intn(len(upperDigits))])
		}
	}
	if g.wild && g.r.Chance(30) {
		sb.WriteString(g.str(3))
	}
	return sb.String()
}

func (g *mgen) register() *rwp.Register {
	k := g.enum(3)
	return &rwp.Register{Reg: rwp.Register_RegisterE(k), Id: g.regID(k), Value: g.u32()}
}

func (g *mgen) netcfg() *rwp.NetworkConfig {
	n := &rwp.NetworkConfig{Dhcp: g.r.Bool(), NoDefaultRoute: g.r.Bool()}
	ip := func() string {
		if g.r.Chance(30) {
			return ""
		}
		return fmt.Sprintf("%d.%d.%d.%d", g.r.Intn(256), g.r.Intn(256), g.r.Intn(256), g.r.Intn(256))
	}
	n.Address, n.Netmask, n.Gateway, n.FirstDns, n.SecondDns = ip(), ip(), ip(), ip(), ip()
	return n
}

func (g *mgen) command() *rwp.Command {
	c := &rwp.Command{}
	switch g.r.Intn(4) {
	case 0: // one flag
		g.setFlag(c, g.r.Intn(16))
	case 1: // several flags
		for i := 0; i < 16; i++ {
			if g.r.Chance(25) {
				g.setFlag(c, i)
			}
		}
	case 2: // one sub-message
		g.setSub(c, g.r.Intn(13))
	case 3: // mixture
		for i := 0; i < 16; i++ {
			if g.r.Chance(10) {
				g.setFlag(c, i)
			}
		}
		for i := 0; i < 13; i++ {
			if g.r.Chance(20) {
				g.setSub(c, i)
			}
		}
	}
	return c
}

func (g *mgen) setFlag(c *rwp.Command, i int) {
	switch i {
	case 0:
		c.ActivatePanel = true
	case 1:
		c.SendPanelInfo = true
	case 2:
		c.ReportHWCavailability = true
	case 3:
		c.SendPanelTopology = true
	case 4:
		c.SendBurninProfile = true
	case 5:
		c.SendCalibrationProfile = true
	case 6:
		c.SendNetworkConfig = true
	case 7:
		c.SendRegisters = true
	case 8:
		c.GetConnections = true
	case 9:
		c.GetRunTimeStats = true
	case 10:
		c.ClearAll = true
	case 11:
		c.ClearLEDs = true
	case 12:
		c.ClearDisplays = true
	case 13:
		c.GetSleepTimeout = true
	case 14:
		c.WakeUp = true
	case 15:
		c.Reboot = true
	}
}

func (g *mgen) posEnum() int32 {
	if g.oor() && g.r.Chance(30) {
		return g.i32()
	}
	if g.r.Chance(70) {
		return int32(g.r.Intn(5))
	}
	return int32(g.r.U64() & 0x7fffffff)
}

func (g *mgen) setSub(c *rwp.Command, i int) {
	switch i {
	case 0:
		c.PanelBrightness = &rwp.Brightness{LEDs: g.u32(), OLEDs: g.u32()}
	case 1:
		j := g.str(8)
		if g.r.Chance(40) {
			j = "{\n  \"a\": " + strconv.Itoa(g.r.Intn(100)) + ",\n\t\"b\": [1, 2]\n}"
		}
		c.SetCalibrationProfile = &rwp.CalibrationProfile{Json: j}
	case 2:
		c.SetNetworkConfig = g.netcfg()
	case 3:
		c.SimulateEnvironmentalHealth = &rwp.Environment{RunMode: rwp.Environment_RunModeE(g.enum(2))}
	case 4:
		c.SetSleepTimeout = &rwp.SleepTimeout{Value: g.u32()}
	case 5:
		c.SetSleepMode = &rwp.SleepMode{Mode: rwp.SleepMode_SlpMode(g.posEnum())}
	case 6:
		c.SetSleepScreenSaver = &rwp.SleepScreenSaver{Type: rwp.SleepScreenSaver_SlpScrSaver(g.posEnum())}
	case 7:
		c.SetDimmedGain = &rwp.DimmedGain{Value: g.u32()}
	case 8:
		c.SetHeartBeatTimer = &rwp.HeartBeatTimer{Value: g.u32()}
	case 9:
		c.PublishSystemStat = &rwp.PublishSystemStat{PeriodSec: g.u32()}
	case 10:
		c.LoadCPU = &rwp.LoadCPU{Level: rwp.LoadCPU_LevelE(g.posEnum())}
	case 11:
		c.SetWebserverEnabled = &rwp.WebserverState{Enabled: g.r.Bool()}
	case 12:
		c.JSONconfig = &rwp.JSONconfig{Outbound: g.r.Bool()}
	}
}

func (g *mgen) msg() *rwp.InboundMessage {
	m := &rwp.InboundMessage{}
	switch g.r.Intn(10) {
	case 0:
		m.FlowMessage = rwp.InboundMessage_FlowMsg(g.enum(3))
	case 1, 2:
		m.Command = g.command()
	case 3:
		m.Registers = append(m.Registers, g.register())
		if g.r.Chance(30) {
			m.Registers = append(m.Registers, g.register())
		}
	case 4: // everything at once
		m.FlowMessage = rwp.InboundMessage_FlowMsg(g.enum(3))
		m.Command = g.command()
		m.States = append(m.States, g.state(), g.state())
		m.Registers = append(m.Registers, g.register())
	default:
		n := 1
		if g.r.Chance(25) {
			n = g.r.Range(2, 3)
		}
		for i := 0; i < n; i++ {
			m.States = append(m.States, g.state())
		}
	}
	return m
}

func (g *mgen) msgs() []*rwp.InboundMessage {
	n := 1
	switch g.r.Intn(8) {
	case 0:
		n = 2
	case 1:
		n = g.r.Range(2, 4)
	case 2:
		if g.wild {
			n = 0
		}
	}
	ms := make([]*rwp.InboundMessage, n)
	for i := range ms {
		ms[i] = g.msg()
	}
	return ms
}

// ------------------------------------------------------------------------------------------------
// C01
// ------------------------------------------------------------------------------------------------

func one(s *rwp.HWCState) []*rwp.InboundMessage {
	return []*rwp.InboundMessage{{States: []*rwp.HWCState{s}}}
}

// exhaustive kernels through the real encoder
func sweepC01() {
	for st := 0; st < 8; st++ {
		for o := 0; o < 2; o++ {
			for b := 0; b < 16; b++ {
				emitMsgs(one(&rwp.HWCState{HWCIDs: []uint32{7}, HWCMode: &rwp.HWCMode{State: rwp.HWCMode_StateE(st), Output: o == 1, BlinkPattern: uint32(b)}}))
			}
		}
	}
	for ip := 0; ip < 16; ip++ {
		for v := 0; v < 4096; v++ {
			emitMsgs(one(&rwp.HWCState{HWCIDs: []uint32{7}, HWCExtended: &rwp.HWCExtended{Interpretation: rwp.HWCExtended_InterpretationE(ip), Value: uint32(v)}}))
		}
	}
	for i := 0; i < 32; i++ {
		emitMsgs(one(&rwp.HWCState{HWCIDs: []uint32{7}, HWCColor: &rwp.HWCColor{ColorIndex: &rwp.ColorIndex{Index: rwp.ColorIndex_Colors(i)}}}))
		emitMsgs(one(&rwp.HWCState{HWCIDs: []uint32{7}, HWCText: &rwp.HWCText{Title: "c", PixelColor: &rwp.Color{ColorIndex: &rwp.ColorIndex{Index: rwp.ColorIndex_Colors(i)}}}}))
	}
	for ch := 0; ch < 3; ch++ {
		for v := 0; v < 256; v++ {
			c := &rwp.ColorRGB{Red: 100, Green: 200, Blue: 30}
			switch ch {
			case 0:
				c.Red = uint32(v)
			case 1:
				c.Green = uint32(v)
			case 2:
				c.Blue = uint32(v)
			}
			emitMsgs(one(&rwp.HWCState{HWCIDs: []uint32{7}, HWCColor: &rwp.HWCColor{ColorRGB: c}}))
			emitMsgs(one(&rwp.HWCState{HWCIDs: []uint32{7}, HWCText: &rwp.HWCText{Title: "c", BackgroundColor: &rwp.Color{ColorRGB: c}}}))
		}
	}
	// every image length 1..700 (all residues mod 170, 1-5 lines)
	r := NewRng(99)
	for n := 1; n <= 700; n++ {
		emitMsgs(one(&rwp.HWCState{HWCIDs: []uint32{3}, HWCGfx: &rwp.HWCGfx{ImageType: rwp.HWCGfx_ImageTypeE(n % 3), W: 64, H: 32, XYoffset: n%2 == 0, X: 1, Y: 2, ImageData: r.Bytes(n)}}))
	}
	// every single text field alone
	for f := 0; f < 21; f++ {
		emitMsgs(one(&rwp.HWCState{HWCIDs: []uint32{3, 4}, HWCText: singleFieldText(f)}))
	}
}

func singleFieldText(f int) *rwp.HWCText {
	t := &rwp.HWCText{SolidHeaderBar: true}
	switch f {
	case 0:
		t.IntegerValue = -5
	case 1:
		t.Formatting = 3
	case 2:
		t.StateIcon, t.ModifierIcon = 2, 5
	case 3:
		t.Title = "T"
	case 4:
		t.SolidHeaderBar = false
	case 5:
		t.Textline1 = "L1"
	case 6:
		t.Textline2, t.PairMode = "L2", 1
	case 7:
		t.IntegerValue2, t.PairMode = 9, 2
	case 8:
		t.PairMode = 4
	case 9, 10, 11, 12, 13:
		t.Scale = &rwp.HWCText_ScaleM{ScaleType: 2, RangeLow: -10, RangeHigh: 10, LimitLow: -5, LimitHigh: 5}
	case 14:
		t.Formatting = 7
	case 15:
		t.TextStyling = &rwp.HWCText_TextStyle{TextFont: &rwp.HWCText_TextStyle_Font{FontFace: 2}, TitleFont: &rwp.HWCText_TextStyle_Font{FontFace: 1}, FixedWidth: true}
	case 16:
		t.TextStyling = &rwp.HWCText_TextStyle{TextFont: &rwp.HWCText_TextStyle_Font{TextWidth: 1, TextHeight: 2}, TitleFont: &rwp.HWCText_TextStyle_Font{TextWidth: 3, TextHeight: 1}}
	case 17:
		t.TextStyling = &rwp.HWCText_TextStyle{TitleBarPadding: 2, ExtraCharacterSpacing: 5}
	case 18:
		t.Inverted = true
	case 19:
		t.PixelColor = &rwp.Color{ColorRGB: &rwp.ColorRGB{Red: 255, Green: 128, Blue: 64}}
	case 20:
		t.BackgroundColor = &rwp.Color{ColorIndex: &rwp.ColorIndex{Index: 13}}
	}
	return t
}

// messages outside InDomainIn but inside Spec.inWireDomain: what the wire carries of out-of-range fields
// (checked against the effects of Spec.maskMsg)
func wideC01() {
	u := uint32(1<<32 - 1)
	for _, st := range []int32{-1, 6, 7, 8, 13, 1<<31 - 1, -1 << 31} {
		for _, b := range []uint32{16, 17, 255, 256, 4096, u} {
			emitMsgs(one(&rwp.HWCState{HWCIDs: []uint32{7}, HWCMode: &rwp.HWCMode{State: rwp.HWCMode_StateE(st), Output: b%2 == 1, BlinkPattern: b}}))
		}
	}
	for _, ip := range []int32{-1, 16, 19, 1<<31 - 1, -1 << 31} {
		for _, v := range []uint32{4096, 4097, 5000, 65535, 65536, u} {
			emitMsgs(one(&rwp.HWCState{HWCIDs: []uint32{7}, HWCExtended: &rwp.HWCExtended{Interpretation: rwp.HWCExtended_InterpretationE(ip), Value: v}}))
		}
	}
	for _, i := range []int32{-1, 32, 33, 63, 64, 77, 1<<31 - 1, -1 << 31} {
		ci := &rwp.ColorIndex{Index: rwp.ColorIndex_Colors(i)}
		emitMsgs(one(&rwp.HWCState{HWCIDs: []uint32{7}, HWCColor: &rwp.HWCColor{ColorIndex: ci}}))
		emitMsgs(one(&rwp.HWCState{HWCIDs: []uint32{7}, HWCColor: &rwp.HWCColor{ColorRGB: &rwp.ColorRGB{Red: 255, Green: 90}, ColorIndex: ci}}))
		emitMsgs(one(&rwp.HWCState{HWCIDs: []uint32{7}, HWCText: &rwp.HWCText{Title: "c", PixelColor: &rwp.Color{ColorIndex: ci},
			BackgroundColor: &rwp.Color{ColorRGB: &rwp.ColorRGB{Blue: u}, ColorIndex: ci}}}))
	}
	emitMsgs(one(&rwp.HWCState{HWCIDs: []uint32{7}, HWCColor: &rwp.HWCColor{}}))
	txt := []*rwp.HWCText{
		{Formatting: -1}, {Formatting: -1 << 31}, {Formatting: 13}, {Formatting: 1<<31 - 1, IntegerValue: 5},
		{StateIcon: 4}, {StateIcon: 7, ModifierIcon: 9}, {StateIcon: -1}, {ModifierIcon: -1, StateIcon: 2}, {ModifierIcon: 8}, {StateIcon: -1, ModifierIcon: -8},
		{Textline2: "b"}, {IntegerValue2: -4}, {Textline2: "b", PairMode: -2}, {PairMode: -1}, {PairMode: 5}, {Textline2: "b", Formatting: 10},
		{Scale: &rwp.HWCText_ScaleM{}}, {Scale: &rwp.HWCText_ScaleM{ScaleType: -1, RangeLow: 5}}, {Scale: &rwp.HWCText_ScaleM{ScaleType: 4, RangeHigh: -5}},
		{Scale: &rwp.HWCText_ScaleM{RangeLow: 1, LimitHigh: 2}},
		{TextStyling: &rwp.HWCText_TextStyle{}}, {TextStyling: &rwp.HWCText_TextStyle{TextFont: &rwp.HWCText_TextStyle_Font{FontFace: 13, TextWidth: 6, TextHeight: u}}},
		{TextStyling: &rwp.HWCText_TextStyle{TitleFont: &rwp.HWCText_TextStyle_Font{FontFace: -1, TextWidth: 4, TextHeight: 5}, TitleBarPadding: 5, ExtraCharacterSpacing: 9}},
		{TextStyling: &rwp.HWCText_TextStyle{TitleBarPadding: 4, ExtraCharacterSpacing: 8}},
		{PixelColor: &rwp.Color{}}, {BackgroundColor: &rwp.Color{ColorIndex: &rwp.ColorIndex{Index: 32}}},
	}
	for _, t := range txt {
		emitMsgs(one(&rwp.HWCState{HWCIDs: []uint32{3, 4}, HWCText: t}))
	}
	for _, ty := range []int32{-1, 3, 9, 1<<31 - 1} {
		emitMsgs(one(&rwp.HWCState{HWCIDs: []uint32{3}, HWCGfx: &rwp.HWCGfx{ImageType: rwp.HWCGfx_ImageTypeE(ty), W: 8, H: 8, ImageData: []byte{1, 2, 3}}}))
	}
	emitMsgs(one(&rwp.HWCState{HWCIDs: []uint32{3}, HWCGfx: &rwp.HWCGfx{W: 8, H: 8}}))
	emitMsgs(one(&rwp.HWCState{HWCIDs: []uint32{3}, HWCGfx: &rwp.HWCGfx{ImageType: 1, XYoffset: true}, HWCMode: &rwp.HWCMode{State: 1}}))
	for _, v := range []int32{-1, -1 << 31, 1<<31 - 1} {
		emitMsgs([]*rwp.InboundMessage{{Command: &rwp.Command{SetSleepMode: &rwp.SleepMode{Mode: rwp.SleepMode_SlpMode(v)}, ClearAll: true,
			SetSleepScreenSaver: &rwp.SleepScreenSaver{Type: rwp.SleepScreenSaver_SlpScrSaver(v)}, LoadCPU: &rwp.LoadCPU{Level: rwp.LoadCPU_LevelE(v)},
			SimulateEnvironmentalHealth: &rwp.Environment{RunMode: rwp.Environment_RunModeE(v)}}}})
	}
	for _, f := range []int32{-1, 4, 9} {
		emitMsgs([]*rwp.InboundMessage{{FlowMessage: rwp.InboundMessage_FlowMsg(f), Registers: []*rwp.Register{{Reg: rwp.Register_RegisterE(f), Id: "A1", Value: 3}, {Reg: 0, Id: "A1", Value: 3}}}})
	}
}

// ------------------------------------------------------------------------------------------------
// C01 scenario classes
// ------------------------------------------------------------------------------------------------

func cloneIn(m *rwp.InboundMessage) *rwp.InboundMessage { return proto.Clone(m).(*rwp.InboundMessage) }

// a message with every section the encoder knows (so that a second message of the same kind shares all sub-message slots)
func (g *mgen) denseMsg() *rwp.InboundMessage {
	m := &rwp.InboundMessage{FlowMessage: rwp.InboundMessage_FlowMsg(g.r.Intn(4)), Command: &rwp.Command{}}
	for i := 0; i < 16; i++ {
		if g.r.Chance(30) {
			g.setFlag(m.Command, i)
		}
	}
	for i := 0; i < 13; i++ {
		if g.r.Chance(80) {
			g.setSub(m.Command, i)
		}
	}
	for k := g.r.Range(1, 3); k > 0; k-- {
		rgb, idx := g.color()
		s := &rwp.HWCState{HWCIDs: g.ids(), HWCMode: &rwp.HWCMode{State: rwp.HWCMode_StateE(g.enum(5)), Output: g.r.Bool(), BlinkPattern: g.below(16)},
			HWCColor:    &rwp.HWCColor{ColorRGB: rgb, ColorIndex: idx},
			HWCExtended: &rwp.HWCExtended{Interpretation: rwp.HWCExtended_InterpretationE(g.enum(15)), Value: g.below(4096)},
			HWCText:     g.text(), HWCGfx: g.gfx(), PublishRawADCValues: &rwp.PublishRawADCValues{Enabled: g.r.Bool()}}
		m.States = append(m.States, s)
	}
	for k := g.r.Range(1, 3); k > 0; k-- {
		m.Registers = append(m.Registers, g.register())
	}
	return m
}

// (b) the same message / state / register more than once in one call with others in between: A B A, A A, A X A X A
func (g *mgen) repeatScenariosIn(n int) {
	for i := 0; i < n; i++ {
		a, b := g.msg(), g.msg()
		emitMsgs([]*rwp.InboundMessage{a, b, cloneIn(a)})
		emitMsgs([]*rwp.InboundMessage{a, cloneIn(a)})
		emitMsgs([]*rwp.InboundMessage{a, {Command: &rwp.Command{ClearAll: true}}, cloneIn(a), b, cloneIn(a)})
		// states A B A for the same component ids inside one message (graphics: identical images around another one)
		ids := g.ids()
		sa, sb := g.state(), g.state()
		if i%2 == 0 {
			sa = &rwp.HWCState{HWCGfx: g.gfx()}
			sb = &rwp.HWCState{HWCGfx: g.gfx()}
		}
		sa.HWCIDs, sb.HWCIDs = ids, ids
		sa2 := proto.Clone(sa).(*rwp.HWCState)
		emitMsgs([]*rwp.InboundMessage{{States: []*rwp.HWCState{sa, sb, sa2}}})
		emitMsgs([]*rwp.InboundMessage{{States: []*rwp.HWCState{sa}}, {States: []*rwp.HWCState{sb}}, {States: []*rwp.HWCState{sa2}}})
		ra, rb := g.register(), g.register()
		emitMsgs([]*rwp.InboundMessage{{Registers: []*rwp.Register{ra, rb, proto.Clone(ra).(*rwp.Register)}}})
	}
}

// (a) results of earlier calls are not changed by later calls (sequential and in two goroutines); (e) a message object
// converted, overwritten in place and converted again
func (g *mgen) seqScenariosIn(n int) {
	hw := func(first, k int, st int32) []*rwp.InboundMessage {
		ms := []*rwp.InboundMessage{}
		for i := 0; i < k; i++ {
			ms = append(ms, &rwp.InboundMessage{States: []*rwp.HWCState{{HWCIDs: []uint32{uint32(first + i)}, HWCMode: &rwp.HWCMode{State: rwp.HWCMode_StateE(st)}}}})
		}
		return ms
	}
	emitMsgsLists("ein.seq", hw(1, 8, 1), hw(101, 8, 2), hw(40, 3, 2))
	emitMsgsLists("ein.par", hw(1, 8, 1), hw(101, 8, 2), hw(40, 3, 2), hw(201, 5, 4))
	for i := 0; i < n; i++ {
		k := g.r.Range(2, 4)
		lists := make([][]*rwp.InboundMessage, k)
		for j := range lists {
			lists[j] = g.msgs()
			if g.r.Chance(30) {
				lists[j] = append(lists[j], g.msgs()...)
			}
		}
		if g.r.Chance(25) {
			lists = append(lists, lists[0])
		}
		if i%4 == 3 {
			emitMsgsLists("ein.par", lists...)
		} else {
			emitMsgsLists("ein.seq", lists...)
		}
		// second use of the same objects
		var a, b []*rwp.InboundMessage
		switch g.r.Intn(4) {
		case 3:
			// two frames of the same size drawn into one buffer (image bytes overwritten in place, same backing array)
			n := g.r.Pick(1, 170, 171, 340, 600)
			ty := rwp.HWCGfx_ImageTypeE(g.r.Intn(3))
			frame := func() []*rwp.InboundMessage {
				return []*rwp.InboundMessage{{States: []*rwp.HWCState{{HWCIDs: []uint32{12, 13},
					HWCGfx: &rwp.HWCGfx{ImageType: ty, W: 64, H: 32, ImageData: g.r.Bytes(n)}}}}}
			}
			a, b = frame(), frame()
		case 0:
			a, b = g.msgs(), g.msgs()
		case 1:
			a, b = []*rwp.InboundMessage{g.denseMsg()}, []*rwp.InboundMessage{g.denseMsg()}
		default:
			a = []*rwp.InboundMessage{g.denseMsg(), g.msg()}
			b = []*rwp.InboundMessage{g.denseMsg(), g.msg(), g.msg()}
		}
		emitMsgsLists("ein.reuse", a, b)
	}
}

// (f) strings longer than the debug dump's patience
func longScenariosIn(r *Rng) {
	for _, n := range []int{201, 300, 499, 500, 501, 700, 2000} {
		s := strings.Repeat("abcdefghi ", n/10+1)[:n]
		emitMsgs(one(&rwp.HWCState{HWCIDs: []uint32{5}, HWCText: &rwp.HWCText{Title: s, IntegerValue: 12, Formatting: 1}}))
		emitMsgs(one(&rwp.HWCState{HWCIDs: []uint32{5, 6}, HWCText: &rwp.HWCText{Title: "T", Textline1: s, Textline2: s, PairMode: 2}}))
		emitMsgs([]*rwp.InboundMessage{{Command: &rwp.Command{SetCalibrationProfile: &rwp.CalibrationProfile{Json: "{\"k\":\"" + s + "\"}"}}}, {FlowMessage: 1}})
		emitMsgs([]*rwp.InboundMessage{{Registers: []*rwp.Register{{Reg: 0, Id: strings.ToUpper(strings.ReplaceAll(s, " ", "9")), Value: 5}}}})
	}
}

// a calibration profile with ONE physical line at and beyond 64 KiB, alone and after a short first line
func hugeLineScenariosIn(r *Rng) {
	for _, n := range []int{65535, 65536, 70000, 300000} {
		js := "{\"k\":\"" + strings.Repeat("abcdefghij", n/10+1)[:n-8] + "\"}"
		if n != 300000 {
			emitMsgs([]*rwp.InboundMessage{{Command: &rwp.Command{SetCalibrationProfile: &rwp.CalibrationProfile{Json: js}}}})
		}
		emitMsgs([]*rwp.InboundMessage{{Command: &rwp.Command{SetCalibrationProfile: &rwp.CalibrationProfile{Json: "{\"a\": 1,\n \"b\":" + js + "\n}"}}}, {FlowMessage: 1}})
	}
}

func genC01(r *Rng, n int, tier string) {
	sweepC01()
	wideC01()
	g := &mgen{r: r}
	for i := 0; i < n; i++ {
		g.wide = r.Chance(25)
		ms := g.msgs()
		emitMsgs(ms)
		// the same messages through encoder and decoder (C02.roundtrip_in on the implementation)
		emitS("ein.rt", msgsTokens(ms, true))
	}
	// scenario classes (after the random stream, so that the records above keep their seeds)
	scale := 1
	if tier == "thorough" {
		scale = 10
	}
	emit("ein.fields")
	g.wide = false
	g.repeatScenariosIn(80 * scale)
	g.seqScenariosIn(200 * scale)
	longScenariosIn(r)
	// (d) coinciding values: fields that are carried only under a condition (X/Y without offset flag, index next to RGB,
	// scale ranges without a type, value next to a font size ...) and equal values in neighbouring fields
	g.coin = true
	for i := 0; i < 1500*scale; i++ {
		g.wide = r.Chance(40)
		emitMsgs(g.msgs())
	}
	g.coin = false
	hugeLineScenariosIn(r)
}

// ------------------------------------------------------------------------------------------------
// C02: lines generated from the grammar
// ------------------------------------------------------------------------------------------------

type lgen struct {
	r *Rng
	m *mgen
}

func (g *lgen) num() string {
	switch g.r.Intn(4) {
	case 0:
		return strconv.FormatUint(uint64(u32Bound[g.r.Intn(len(u32Bound))]), 10)
	case 1:
		return strconv.Itoa(g.r.Intn(300))
	case 2:
		return strconv.Itoa(g.r.Intn(65536))
	}
	return strconv.FormatUint(uint64(uint32(g.r.U64())), 10)
}

func (g *lgen) idList() string {
	n := 1
	if g.r.Chance(30) {
		n = g.r.Range(2, 4)
	}
	p := make([]string, n)
	for i := range p {
		if g.r.Chance(85) {
			p[i] = strconv.Itoa(g.r.Intn(300))
		} else {
			p[i] = g.num()
		}
	}
	return strings.Join(p, ",")
}

var words = []string{"ping", "ack", "nack", "ActivePanel=1", "list", "map", "PanelTopology?", "BurninProfile?", "CalibrationProfile?",
	"NetworkConfig?", "Registers?", "Connections?", "RunTimeStats?", "Clear", "ClearLEDs", "ClearDisplays", "SleepTimer?", "WakeUp!", "Reboot"}
var numKeys = []string{"HeartBeatTimer", "DimmedGain", "PublishSystemStat", "LoadCPU", "SleepTimer", "SleepMode", "SleepScreenSaver", "Webserver", "JSONonOutbound", "PanelBrightness"}

func (g *lgen) i32s() string {
	if g.r.Chance(40) {
		return ""
	}
	return strconv.Itoa(int(g.m.i32()))
}
func (g *lgen) bits(n int) string {
	if g.r.Chance(40) {
		return ""
	}
	return strconv.Itoa(g.r.Intn(1 << n))
}
func (g *lgen) colorField() string {
	switch g.r.Intn(5) {
	case 0, 1:
		return ""
	case 2:
		return strconv.Itoa(64 + g.r.Intn(64))
	case 3:
		return strconv.Itoa(g.r.Intn(32))
	}
	return strconv.Itoa(g.r.Intn(256))
}
func (g *lgen) txt() string {
	s := g.m.str(5)
	return strings.NewReplacer("|", "!", "\n", " ").Replace(s)
}

// a text value: 21 fields generated independently, then a prefix kept / trailing empties trimmed
func (g *lgen) textValue() string {
	f := make([]string, 21)
	f[0] = g.i32s()
	if g.r.Chance(60) {
		f[1] = strconv.Itoa(g.r.Intn(13))
	}
	if f[1] == "10" || f[1] == "11" {
		if g.r.Chance(70) {
			f[0] = g.num()
		} else {
			f[0] = ""
		}
	}
	f[2] = g.bits(6)
	f[3] = g.txt()
	f[4] = []string{"", "0", "1", "2"}[g.r.Intn(4)]
	f[5] = g.txt()
	f[6] = g.txt()
	f[7] = g.i32s()
	if g.r.Chance(50) {
		f[8] = strconv.Itoa(g.r.Intn(5))
	}
	if g.r.Chance(40) {
		f[9] = strconv.Itoa(g.r.Intn(4))
		f[10], f[11], f[12], f[13] = g.i32s(), g.i32s(), g.i32s(), g.i32s()
	}
	if g.r.Chance(10) {
		f[14] = "x"
	}
	f[15] = g.bits(7)
	f[16] = g.bits(8)
	f[17] = g.bits(5)
	f[18] = []string{"", "0", "1", "5"}[g.r.Intn(4)]
	f[19] = g.colorField()
	f[20] = g.colorField()
	switch g.r.Intn(4) {
	case 0: // keep a prefix of the fields (0..21)
		f = f[:g.r.Intn(22)]
	case 1: // canonical: trailing empties trimmed
		for len(f) > 0 && f[len(f)-1] == "" {
			f = f[:len(f)-1]
		}
	case 2: // sparse: only a few fields present
		for i := range f {
			if g.r.Chance(75) {
				f[i] = ""
			}
		}
	}
	return strings.Join(f, "|")
}

func (g *lgen) gfxLines() []string {
	kw := []string{"HWCg#", "HWCgRGB#", "HWCgGray#"}[g.r.Intn(3)]
	ids := g.idList()
	var out []string
	if g.r.Chance(30) { // simple three-line format, 64x32 mono = 256 bytes
		data := g.r.Bytes(256)
		cuts := [][2]int{{0, 86}, {86, 171}, {171, 256}}
		if g.r.Chance(30) {
			cuts = [][2]int{{0, 170}, {170, 256}, {256, 256}}
		}
		for i, c := range cuts {
			out = append(out, fmt.Sprintf("%s%s=%d:%s", kw, ids, i, base64.StdEncoding.EncodeToString(data[c[0]:c[1]])))
		}
		return out
	}
	n := []int{1, 5, 170, 171, 340, 400}[g.r.Intn(6)]
	if g.r.Chance(40) {
		n = g.r.Range(1, 520)
	}
	data := g.r.Bytes(n)
	chunk := 170
	if g.r.Chance(30) {
		chunk = g.r.Range(40, 170)
	}
	total := (n + chunk - 1) / chunk
	for i := 0; i < total; i++ {
		hi := (i + 1) * chunk
		if hi > n {
			hi = n
		}
		l := fmt.Sprintf("%s%s=%d", kw, ids, i)
		if i == 0 {
			l += fmt.Sprintf("/%d,%dx%d", total-1, g.r.Range(1, 256), g.r.Range(1, 128))
			if g.r.Chance(40) {
				l += fmt.Sprintf(",%d,%d", g.r.Intn(300), g.r.Intn(300))
			}
		}
		out = append(out, l+":"+base64.StdEncoding.EncodeToString(data[i*chunk:hi]))
	}
	return out
}

// two transfers woven into each other (each keeps its own order): outside Spec.inDomainLines (gfxDiscipline), so only
// the correspondence model = implementation is checked on them (the decoder ignores parts of a foreign id list / format,
// the reference reader abandons: theorem C02.foreign_part_divergence)
func (g *lgen) interleaved() []string {
	a, b := g.gfxLines(), g.gfxLines()
	var out []string
	for len(a) > 0 || len(b) > 0 {
		if len(b) == 0 || (len(a) > 0 && g.r.Bool()) {
			out = append(out, a[0])
			a = a[1:]
		} else {
			out = append(out, b[0])
			b = b[1:]
		}
	}
	return out
}

var nonGrammar = []string{"", "PING", "ping ", " ping", "pong", "Ping", "hello world", "HWCy#1=2", "hwc#1=2", "HWC1=2", "Memx=1", "mem=1", "MEMA=1",
	"flag#1=1", "State_1=2", "Shifta=3", "foo=bar", "=5", "#=1", "HeartBeat=5", "heartbeattimer=5", "Brightness=1,2", "Sleep=1", "HWCg=0:AAAA",
	"Clear!", "Reboot?", "list=1", "map=1:2", "_model=x", "HWC#1", "BSY", "RDY", "Webserver", "Flag1=2",
	"Mema=1", "Shiftx=3", "Statez=2", "MemA1b=5", "State=x=1", "Shift-1=2", "Mem 1=2",
	// a grammar line behind a foreign prefix / before a foreign suffix (an un-anchored pattern would accept these)
	"PanelState=4", "xMemA=7", "ResetShiftB=1", "NoFlag#12=1", "HeartBeatState=3", "Foo Mem=33", "xHWC#1=4", "yHWCt#1=5", " HWCx#3=1",
	"xHeartBeatTimer=5", "MyPanelBrightness=3", "MyPanelBrightness=3,4", "xSetCalibrationProfile={}", "HWCg#1=0:AAAAx y", "zHWCg#1=0:AAAA",
	"HWC#1=4 ", "MemA=7x", "PanelBrightness=3,4,", "HeartBeatTimer=5;", "Flag#1=1 1"}

func (g *lgen) line() []string { return g.lineFam(g.r.Intn(20)) }

// one line group of family k (0..19; 18, 19 = a non-grammar line)
func (g *lgen) lineFam(k int) []string {
	switch k {
	case 0:
		return []string{words[g.r.Intn(len(words))]}
	case 1:
		return []string{numKeys[g.r.Intn(len(numKeys))] + "=" + g.num()}
	case 2:
		if g.r.Bool() {
			return []string{"PanelBrightness=" + g.num()}
		}
		return []string{"PanelBrightness=" + g.num() + "," + g.num()}
	case 3:
		switch g.r.Intn(3) {
		case 0:
			return []string{"SetCalibrationProfile=" + strings.TrimSpace(g.txt())}
		case 1:
			j, _ := json.Marshal(g.m.netcfg())
			return []string{"SetNetworkConfig=" + string(j)}
		}
		return []string{"SimulateEnvironmentalHealth=" + []string{"Normal", "Safemode", "Blocked"}[g.r.Intn(3)]}
	case 4, 5:
		return []string{"HWC#" + g.idList() + "=" + g.num()}
	case 6, 7:
		return []string{"HWCx#" + g.idList() + "=" + g.num()}
	case 8, 9:
		return []string{"HWCc#" + g.idList() + "=" + g.num()}
	case 10, 11, 12, 13:
		return []string{"HWCt#" + g.idList() + "=" + g.textValue()}
	case 14:
		return []string{"HWCrawADCValues#" + g.idList() + "=" + strconv.Itoa(g.r.Intn(2))}
	case 15:
		if g.r.Chance(15) {
			return g.interleaved()
		}
		return g.gfxLines()
	case 16:
		k := int32(g.r.Intn(4))
		pre := []string{"Mem", "Flag#", "Shift", "State"}[k]
		return []string{pre + g.m.regID(k) + "=" + g.num()}
	case 17:
		if g.r.Chance(70) {
			st := g.m.state()
			j, _ := json.Marshal(st)
			return []string{string(j)}
		}
		j, _ := json.Marshal(g.m.msgs())
		return []string{string(j)}
	default:
		return []string{nonGrammar[g.r.Intn(len(nonGrammar))]}
	}
}

// ------------------------------------------------------------------------------------------------
// the six hand-written byte matchers of Model/DecIn.lean against the library's real regexp objects
// ------------------------------------------------------------------------------------------------

var inRegexes = []string{"regex_cmd", "regex_gfx", "regex_genericSingle", "regex_genericDual", "regex_genericSingleStr", "regex_registers"}

// the significant bytes: digits, the separators of the six patterns, the bytes just outside the classes [0-9] ('/' ':')
// and [A-Z] ('@' '['), a lower-case letter, white space, LF ('.' does not match it), CR, a non-ASCII byte, '#', '|'
var rxAlphabet = []byte{'0', '9', ',', '=', '/', 'x', ':', '-', 'A', 'Z', 'a', ' ', '\n', 0xc3, '#', '@', '[', '\r', '|'}

// prefixes of valid lines at every structural position of each pattern
func rxStems(name string) []string {
	var out []string
	switch name {
	case "regex_cmd":
		for _, kw := range []string{"HWC#", "HWCx#", "HWCc#", "HWCt#", "HWCrawADCValues#"} {
			for _, t := range []string{"", "1", "1,", "1,2", "1=", "1=5", "1,2=a|b"} {
				out = append(out, kw+t)
			}
		}
	case "regex_gfx":
		for _, kw := range []string{"HWCgRGB#", "HWCgGray#", "HWCg#"} {
			for _, t := range []string{"", "1", "1,2", "1=", "1=0", "1=0:", "1=0:AA", "1=0/", "1=0/1", "1=0/1,", "1=0/1,2", "1=0/1,2x", "1=0/1,2x3", "1=0/1,2x3:",
				"1=0/1,2x3,", "1=0/1,2x3,4", "1=0/1,2x3,4,", "1=0/1,2x3,4,5", "1=0/1,2x3,4,5:", "1=0/1,2x3,4,5:AA"} {
				out = append(out, kw+t)
			}
		}
	case "regex_genericSingle":
		for _, kw := range numKeys {
			for _, t := range []string{"", "=", "=5", "=50"} {
				out = append(out, kw+t)
			}
		}
	case "regex_genericDual":
		for _, t := range []string{"", "=", "=1", "=1,", "=1,2", "=10,20"} {
			out = append(out, "PanelBrightness"+t)
		}
	case "regex_genericSingleStr":
		for _, kw := range []string{"SetCalibrationProfile", "SimulateEnvironmentalHealth", "SetNetworkConfig"} {
			for _, t := range []string{"", "=", "=x", "={\"a\":1}"} {
				out = append(out, kw+t)
			}
		}
	case "regex_registers":
		for _, kw := range []string{"Flag#", "Mem", "Shift", "State"} {
			for _, t := range []string{"", "A", "A1", "7", "A1=", "A1=5", "=5", "=50"} {
				out = append(out, kw+t)
			}
		}
	}
	return out
}

// complete lines each pattern accepts (all keywords, shortest and longest forms)
func rxValid(name string) []string {
	switch name {
	case "regex_cmd":
		return []string{"HWC#1=5", "HWCx#12,3=4095", "HWCc#7=209", "HWCt#1,2=-12|1|11|Title", "HWCrawADCValues#3=1", "HWC#1="}
	case "regex_gfx":
		return []string{"HWCg#1=0:AA", "HWCgRGB#1,2=0/1,8x8:AAAA", "HWCgGray#3=0/12,64x32,3,4:/w==", "HWCg#9=12:", "HWCg#1=0/0,0x0:"}
	case "regex_genericSingle":
		return []string{"HeartBeatTimer=5", "DimmedGain=10", "PublishSystemStat=0", "LoadCPU=3", "SleepTimer=600", "SleepMode=1", "SleepScreenSaver=2",
			"Webserver=1", "JSONonOutbound=0", "PanelBrightness=7"}
	case "regex_genericDual":
		return []string{"PanelBrightness=3,4", "PanelBrightness=10,200"}
	case "regex_genericSingleStr":
		return []string{"SetCalibrationProfile={\"a\": 1}", "SimulateEnvironmentalHealth=Normal", "SetNetworkConfig={}", "SetNetworkConfig="}
	case "regex_registers":
		return []string{"Flag#12=1", "MemA1=5", "ShiftB=0", "State=3", "Mem=1", "Flag#=0", "StateZ9=4294967295"}
	}
	return nil
}

func emitMatch(name string, line []byte) { emit("din.match", name, line) }

// every string over the alphabet of length 0..maxLen appended to prefix
func rxEnum(name string, prefix []byte, maxLen int) {
	var rec func(cur []byte, left int)
	rec = func(cur []byte, left int) {
		emitMatch(name, cur)
		if left == 0 {
			return
		}
		for _, c := range rxAlphabet {
			rec(append(cur[:len(cur):len(cur)], c), left-1)
		}
	}
	rec(prefix, maxLen)
}

// all single edits (delete / replace / insert over the alphabet) of l
func rxEdits1(l []byte) [][]byte {
	var out [][]byte
	for p := 0; p <= len(l); p++ {
		if p < len(l) {
			out = append(out, append(append([]byte{}, l[:p]...), l[p+1:]...))
			for _, c := range rxAlphabet {
				if c != l[p] {
					e := append([]byte{}, l...)
					e[p] = c
					out = append(out, e)
				}
			}
		}
		for _, c := range rxAlphabet {
			e := append(append(append([]byte{}, l[:p]...), c), l[p:]...)
			out = append(out, e)
		}
	}
	return out
}

// Bounded-exhaustive comparison of the byte matchers with the real regular expressions:
//   * one din.rx record per pattern (the compiled object's pattern text = the extracted source text the proofs pin)
//   * every string of length <= L over the alphabet alone and after every stem (own pattern; alone: all six patterns)
//   * every valid line against all six patterns, all its single edits (own pattern), and double edits: a random sample
//     per line (300 quick / 5000 thorough), in the thorough tier ALL double edits of the shortest valid line of each pattern
func genInMatch(r *Rng, tier string) {
	thorough := tier == "thorough"
	for _, name := range inRegexes {
		emit("din.rx", name)
	}
	free, after, dbl := 3, 2, 300
	if thorough {
		free, after, dbl = 4, 3, 5000
	}
	for _, name := range inRegexes {
		rxEnum(name, nil, free)
		for _, st := range rxStems(name) {
			rxEnum(name, []byte(st), after)
		}
	}
	for _, name := range inRegexes {
		valid := rxValid(name)
		shortest := 0
		for i, v := range valid {
			if len(v) < len(valid[shortest]) {
				shortest = i
			}
		}
		for vi, v := range valid {
			for _, other := range inRegexes {
				emitMatch(other, []byte(v))
			}
			e1 := rxEdits1([]byte(v))
			for _, e := range e1 {
				emitMatch(name, e)
			}
			if thorough && vi == shortest { // all double edits of the shortest valid line of the pattern
				for _, e := range e1 {
					for _, e2 := range rxEdits1(e) {
						emitMatch(name, e2)
					}
				}
			} else {
				for i := 0; i < dbl; i++ {
					e2 := rxEdits1(e1[r.Intn(len(e1))])
					emitMatch(name, e2[r.Intn(len(e2))])
				}
			}
		}
	}
}

func sweepC02() {
	for _, kw := range []string{"HWC#", "HWCx#", "HWCc#"} {
		for v := 0; v < 65536; v++ {
			emitLines([]string{kw + "7=" + strconv.Itoa(v)})
		}
	}
	// colour fields of a text line: all 256 values
	for v := 0; v < 256; v++ {
		emitLines([]string{"HWCt#7=|||T||||||||||||||||" + strconv.Itoa(v) + "|" + strconv.Itoa(255-v)})
	}
	// every prefix length 0..21 of a fully populated text line
	full := []string{"-12", "3", "45", "Title", "1", "L1", "L2", "34", "2", "1", "-100", "100", "-50", "50", "", "83", "228", "22", "1", "116", "13"}
	for n := 0; n <= 21; n++ {
		emitLines([]string{"HWCt#1,2=" + strings.Join(full[:n], "|")})
	}
}

// ------------------------------------------------------------------------------------------------
// C02 scenario classes: repeated lines, numerals spelled non-canonically, enumerated values outside their enumeration,
// results of earlier calls
// ------------------------------------------------------------------------------------------------

// lines that stand between two occurrences of a line: commands, registers, blank / non-grammar lines, a one-line
// graphics transfer, a JSON state
var betweenLines = [][]string{{"Clear"}, {"ClearLEDs", "PanelBrightness=3,4"}, {""}, {"foo=bar"}, {"MemA=1"}, {"list"}, {"ping"},
	{"HWCg#9=0/0,8x8:QUJD"}, {"{\"HWCIDs\":[3],\"HWCMode\":{\"State\":2}}"}, {"HeartBeatTimer=5"}, {"SimulateEnvironmentalHealth=Normal"}, {"pong", "Reboot"}}

func cat(groups ...[]string) []string {
	var out []string
	for _, g := range groups {
		out = append(out, g...)
	}
	return out
}

// one complete graphics transfer for a fixed keyword and id list
func (g *lgen) transferFor(kw, ids string) []string {
	n := g.r.Range(1, 400)
	data := g.r.Bytes(n)
	total := (n + 169) / 170
	var out []string
	for i := 0; i < total; i++ {
		hi := (i + 1) * 170
		if hi > n {
			hi = n
		}
		l := fmt.Sprintf("%s%s=%d", kw, ids, i)
		if i == 0 {
			l += fmt.Sprintf("/%d,%dx%d", total-1, g.r.Range(1, 256), g.r.Range(1, 128))
		}
		out = append(out, l+":"+base64.StdEncoding.EncodeToString(data[i*170:hi]))
	}
	return out
}

// (b) the same line (group) more than once in one call, other lines in between: A X A, A A, A B A, A X A X A for every
// line family; identical images A B A for one component
func (g *lgen) repeatScenarios(perFam int) {
	for fam := 0; fam < 19; fam++ {
		for rep := 0; rep < perFam; rep++ {
			a, b := g.lineFam(fam), g.lineFam(fam)
			x := betweenLines[g.r.Intn(len(betweenLines))]
			y := betweenLines[g.r.Intn(len(betweenLines))]
			emitLines(cat(a, x, a))
			emitLines(cat(a, a))
			emitLines(cat(a, b, a))
			emitLines(cat(a, x, a, y, a))
		}
	}
	for _, kw := range []string{"HWCg#", "HWCgRGB#", "HWCgGray#"} {
		for rep := 0; rep < perFam; rep++ {
			ids := g.idList()
			a, b := g.transferFor(kw, ids), g.transferFor(kw, ids)
			emitLines(cat(a, b, a))
			emitLines(cat(a, a))
			emitLines(cat(a, []string{"Clear"}, a))
		}
	}
}

// (c) every numeric position of every line family, canonical values chosen so that a base-prefix / octal reading shows
var dinNumTempls = []numTempl{
	nt("HWC#", "8", "=", "10", ""), nt("HWC#", "9", ",", "10", "=", "265", ""), nt("HWCx#", "10", "=", "4109", ""), nt("HWCc#", "18", "=", "209", ""),
	nt("HWCc#", "7", "=", "10", ""), nt("HWCrawADCValues#", "8", "=", "1", ""), nt("HWCrawADCValues#", "10", "=", "0", ""),
	nt("HWCt#", "8", "=", "-12", "|", "3", "|", "45", "|Title|", "1", "|L1|L2|", "34", "|", "2", "|", "1", "|", "-100", "|", "100", "|", "-50", "|", "50", "||", "83", "|", "228", "|", "22", "|", "1", "|", "116", "|", "13", ""),
	nt("HWCt#", "10", "=", "18", "|", "10", "|", "0", "|T"), nt("HWCt#", "9", "=", "0", "|", "0", "||A|", "0", "|B|C|", "0", "|", "0", ""),
	nt("HWCg#", "8", "=", "0", "/", "0", ",", "10", "x", "8", ":QUJD"), nt("HWCgRGB#", "8", ",", "10", "=", "0", "/", "0", ",", "8", "x", "10", ",", "18", ",", "10", ":QUJD"),
	nt("HWCgGray#", "10", "=", "0", ":"),
	nt("HeartBeatTimer=", "10", ""), nt("DimmedGain=", "8", ""), nt("PublishSystemStat=", "10", ""), nt("LoadCPU=", "10", ""), nt("SleepTimer=", "100", ""),
	nt("SleepMode=", "10", ""), nt("SleepScreenSaver=", "8", ""), nt("Webserver=", "8", ""), nt("Webserver=", "0", ""), nt("JSONonOutbound=", "9", ""),
	nt("JSONonOutbound=", "0", ""), nt("PanelBrightness=", "10", ""), nt("PanelBrightness=", "8", ",", "10", ""), nt("PanelBrightness=", "255", ",", "0", ""),
	nt("MemA1=", "10", ""), nt("Mem=", "8", ""), nt("Flag#", "10", "=", "1", ""), nt("Flag#", "8", "=", "0", ""), nt("Flag#", "0", "=", "10", ""), nt("ShiftB=", "255", ""), nt("State=", "10", ""), nt("StateZ9=", "0", ""),
}

// which positions take a sign: the value of the HWC*# lines and every field of a text line are free-form text read by
// Atoi ('+' and '-' accepted by the code; the grammar admits '-' on int fields only: the Spec sorts the others out of
// the domain)
func dinSigns(t numTempl) numTempl {
	t.plus = make([]bool, len(t.nums))
	t.minus = make([]bool, len(t.nums))
	if strings.HasPrefix(t.parts[0], "HWC") && !strings.HasPrefix(t.parts[0], "HWCg") {
		first := 1
		for i, p := range t.parts {
			if strings.Contains(p, "=") {
				first = i
				break
			}
		}
		for i := first; i < len(t.nums); i++ {
			t.plus[i], t.minus[i] = true, true
		}
	}
	return t
}

// a multi-part transfer whose part indices are re-spelled (the index of every part must still be read as a decimal)
func respelledTransfer(r *Rng) []string {
	sp := func(n int) string {
		s := spellings(strconv.Itoa(n), false, false)
		return s[r.Intn(len(s))]
	}
	data := r.Bytes(170*9 + 5)
	var out []string
	for i := 0; i < 10; i++ {
		hi := (i + 1) * 170
		if hi > len(data) {
			hi = len(data)
		}
		l := "HWCg#8=" + sp(i)
		if i == 0 {
			l += "/" + sp(9) + "," + sp(10) + "x" + sp(8)
		}
		out = append(out, l+":"+base64.StdEncoding.EncodeToString(data[i*170:hi]))
	}
	return out
}

func (g *lgen) numeralScenarios(randomN int) {
	for _, t0 := range dinNumTempls {
		t := dinSigns(t0)
		emitLines([]string{t.render(t.nums)})
		for _, l := range t.respelled() {
			emitLines([]string{l})
		}
	}
	emitLines(respelledTransfer(g.r))
	// very long digit strings with a value beyond the numerals of the grammar (outside the domain: Atoi's range error)
	for _, l := range []string{"HeartBeatTimer=00000000000000000000004294967296", "HWC#7=000000000000000000000099999999999999999999", "PanelBrightness=0000000000000000000000000000000000000000000000000000000000000000000000000007,08",
		"HWCt#7=0000000000000000000000000000000000000000000012|00000000000000000000000000000000000000003", "Flag#000000000000000000000000000000000000000000000000000000000000017=0000000000000000000000000000000001"} {
		emitLines([]string{l})
	}
	for i := 0; i < randomN; i++ {
		k := g.r.Range(1, 4)
		var ls []string
		for j := 0; j < k; j++ {
			t := dinSigns(dinNumTempls[g.r.Intn(len(dinNumTempls))])
			if g.r.Chance(70) {
				sp := t.respelled()
				ls = append(ls, sp[g.r.Intn(len(sp))])
			} else {
				ls = append(ls, t.respelledAll(g.r))
			}
			if g.r.Chance(30) {
				ls = append(ls, g.line()...)
			}
		}
		emitLines(ls)
	}
}

// (g) a known keyword / key with a value outside its enumeration, alone and inside batches directly after lines that
// produce a message (din.ctx: the decoder's answer for every line alone is part of the record; the batch must be the
// concatenation: no line may change what its neighbours denote)
var dinEnumOutside = []string{"SimulateEnvironmentalHealth=Weird", "SimulateEnvironmentalHealth=normal", "SimulateEnvironmentalHealth=", "SimulateEnvironmentalHealth=Blocked ",
	"SimulateEnvironmentalHealth=2", "HWCrawADCValues#5=2", "HWCrawADCValues#5=", "HWCrawADCValues#5=on", "HWCrawADCValues#5=01", "ActivePanel=0", "ActivePanel=2", "ActivePanel=",
	"SetNetworkConfig=notjson", "SetNetworkConfig=", "HWC#5=", "HWC#5=x", "HWCx#5=-1", "HWCc#5=blue", "HWCt#5=a|b|c", "MemA=", "Flag#A=1", "State1=x", "PanelBrightness=1,2,3", "HeartBeatTimer=", "HeartBeatTimer=-1",
	"Webserver=yes", "JSONonOutbound=true", "SleepMode=deep", "LoadCPU=high"}

func (g *lgen) enumScenarios(randomN int) {
	producers := [][]string{{"HWC#7=4"}, {"Clear"}, {"ping"}, {"MemA=4"}, {"HWCt#3=12|1||Gain"}, {"HeartBeatTimer=5"}, {"SimulateEnvironmentalHealth=Safemode"},
		{"HWCg#5=0/0,8x8:QUJD"}, {"HWCrawADCValues#5=1"}, {"PanelBrightness=3,4"}, {"{\"HWCIDs\":[3],\"HWCMode\":{\"State\":2}}"}, {"SetCalibrationProfile={}"}}
	for _, e := range dinEnumOutside {
		emitLinesAs("din.ctx", []string{e})
		for _, p := range producers {
			emitLinesAs("din.ctx", cat(p, []string{e}))
		}
		emitLinesAs("din.ctx", []string{"HWC#7=4", e, "HWC#7=0"})
		emitLinesAs("din.ctx", []string{e, e, "HWCx#9=100", e})
	}
	for i := 0; i < randomN; i++ {
		var ls []string
		k := g.r.Range(2, 6)
		for j := 0; j < k; j++ {
			switch {
			case g.r.Chance(40):
				ls = append(ls, dinEnumOutside[g.r.Intn(len(dinEnumOutside))])
			case g.r.Chance(15):
				ls = append(ls, g.malformed())
			default:
				f := g.r.Intn(19)
				if f == 15 || f == 17 { // keep graphics transfers and JSON out of the random context batches
					f = 4
				}
				ls = append(ls, g.lineFam(f)...)
			}
		}
		emitLinesAs("din.ctx", ls)
	}
}

// (a) what an earlier call returned is not changed by a later call
func (g *lgen) seqScenarios(randomN int) {
	emitLineBatches([]string{"HWC#1=1", "HWC#2=1", "HWC#3=1"}, []string{"HWC#101=2", "HWC#102=2", "HWC#103=2"}, []string{"HWC#40=2"})
	emitLineBatches([]string{"HWCt#12=45|1||Gain"}, []string{"HWCt#12=46|1||Gain"})
	for i := 0; i < randomN; i++ {
		k := g.r.Range(2, 4)
		batches := make([][]string, k)
		for b := range batches {
			for j := g.r.Range(1, 4); j > 0; j-- {
				batches[b] = append(batches[b], g.line()...)
			}
		}
		if g.r.Chance(30) { // the same batch again
			batches = append(batches, batches[0])
		}
		if i%4 == 3 {
			emitLineBatchesAs("din.par", batches...)
		} else {
			emitLineBatches(batches...)
		}
	}
}

// (f) lines longer than the debug dump's patience: long titles / text lines, long calibration payloads, long non-grammar lines
func (g *lgen) longLineScenarios() {
	for _, n := range []int{201, 300, 499, 500, 501, 700, 2000} {
		s := strings.Repeat("abcdefghi ", n/10+1)[:n]
		emitLines([]string{"HWCt#5=12|1||" + s})
		emitLines([]string{"HWC#1=4", "HWCt#5,6=|||T||" + s + "|" + s + "||2", "HWC#1=0"})
		emitLines([]string{"SetCalibrationProfile={\"k\":\"" + s + "\"}"})
		emitLines([]string{"unknownKeyword" + s, "HWC#1=4"})
		emitLines([]string{"Mem" + strings.ToUpper(strings.ReplaceAll(s, " ", "9")) + "=5"})
	}
}

// (g) JSON-carrying lines ('{' state, '[' message list, SetNetworkConfig=) that are a complete valid JSON value FOLLOWED
// or PRECEDED by something: a stray closing bracket, a comma, a second value glued on, another protocol line run
// together with it, garbage, blanks, a byte-order mark. Only blanks after the value keep the line valid JSON; every
// other line is not one JSON value and is outside the grammar as a whole. What encoding/json.Unmarshal yields for each
// line is in the record's oracle table.
var jsonTrailers = []string{"}", "]", ",", ":", "garbage", " HWC#8=4", "HWC#8=4", " x", "\"", "null", "0", "{}", "[]", "{", "[", "\ufeff", " ", "\t", "\r", "  \t ", " }", "\t,", "\r]",
	"\nHWC#8=4", ",{}", "//c", "\x00", "\xff"}
var jsonLeaders = []string{" ", "\t", "\ufeff", "\r", "  "}

func (g *lgen) jsonValue(kind int) string {
	switch kind {
	case 0:
		j, _ := json.Marshal(g.m.state())
		return string(j)
	case 1:
		j, _ := json.Marshal(g.m.msgs())
		return string(j)
	}
	j, _ := json.Marshal(g.m.netcfg())
	return string(j)
}

func (g *lgen) jsonGluedScenarios(randomN int) {
	around := func(l string) {
		emitLines([]string{l})
		emitLines([]string{"HWC#1=4", l, "HWC#1=0"})
	}
	fixed := []string{
		"{\"HWCIDs\":[7],\"HWCColor\":{\"ColorIndex\":{\"Index\":4}}}",
		"{\"HWCIDs\":[9],\"HWCMode\":{\"State\":2}}",
		"{\"HWCIDs\":[11],\"HWCText\":{\"Title\":\"x\"}}",
		"[{\"States\":[{\"HWCIDs\":[3],\"HWCMode\":{\"State\":4}}]}]",
		"[{\"Command\":{\"ClearAll\":true}},{\"Registers\":[{\"Id\":\"A\",\"Value\":5}]}]",
		"SetNetworkConfig={\"address\":\"10.0.0.9\",\"dhcp\":true}",
	}
	for _, v := range fixed {
		for _, t := range jsonTrailers {
			around(v + t)
		}
		for _, l := range jsonLeaders {
			around(l + v)
		}
		// two values glued
		for _, w := range fixed[:5] {
			around(v + w)
		}
	}
	for i := 0; i < randomN; i++ {
		kind := g.r.Intn(3)
		v := g.jsonValue(kind)
		if kind == 2 {
			v = "SetNetworkConfig=" + v
		}
		var l string
		switch g.r.Intn(5) {
		case 0, 1:
			l = v + jsonTrailers[g.r.Intn(len(jsonTrailers))]
		case 2:
			l = v + g.jsonValue(g.r.Intn(3))
		case 3:
			l = jsonLeaders[g.r.Intn(len(jsonLeaders))] + v
		case 4:
			l = v + strings.Join(g.line(), "")
		}
		lines := []string{l}
		if g.r.Bool() {
			lines = cat(g.line(), lines, g.line())
		}
		emitLines(lines)
	}
}

func genC02(r *Rng, n int, tier string) {
	genInMatch(r, tier)
	sweepC02()
	// every non-grammar sample alone, then next to a state line (minimal replays for "non-grammar lines are silent")
	for _, l := range nonGrammar {
		emitLines([]string{l})
		emitLines([]string{"HWC#1=4", l, "HWC#1=0"})
	}
	for _, w := range words {
		emitLines([]string{w})
	}
	// graphics corner cases: empty data, one-line transfers, restart in the middle
	emitLines([]string{"HWCg#1=0/0,8x8:"})
	emitLines([]string{"HWCgRGB#1,2=0/0,8x8,3,4:QUJD"})
	emitLines([]string{"HWCg#1=0/1,8x8:QUJD", "HWCg#1=0/1,8x8:REVG", "HWCg#1=1:R0hJ"})
	emitLines([]string{"HWCg#5=0:QUJD", "HWC#5=4", "HWCg#5=1:REVG", "HWCg#5=2:R0hJ"})
	// interleaved transfers (outside the domain: correspondence only), the witnesses of foreign_part_divergence /
	// foreign_format_divergence and variations: A0 B0 A1 B1, A0 B0 B1 A1, foreign format, same ids in two formats, B inside A
	emitLines([]string{"HWCg#1=0/1,8x8:AAAA", "HWCg#2=0/1,8x8:AQID", "HWCg#1=1:AAAA", "HWCg#2=1:BAUG"})
	emitLines([]string{"HWCg#1=0/1,8x8:AAAA", "HWCg#2=0/1,8x8:AQID", "HWCg#2=1:BAUG", "HWCg#1=1:AAAA"})
	emitLines([]string{"HWCg#1=0/1,8x8:AAAA", "HWCgRGB#1=1:AQID", "HWCg#1=1:BAUG"})
	emitLines([]string{"HWCg#1=0/1,8x8:AAAA", "HWCgGray#1=0/1,8x8:AQID", "HWCg#1=1:AAAA", "HWCgGray#1=1:BAUG"})
	emitLines([]string{"HWCg#1=0/2,8x8:AAAA", "HWCg#1=1:AAAA", "HWCg#2=0/0,4x4:AQID", "HWCg#1=2:BAUG"})
	emitLines([]string{"HWCg#1,2=0:AAAA", "HWCg#2,1=1:AQID", "HWCg#1,2=1:AAAA", "HWCg#1,2=2:BAUG"})
	// the out-of-domain behaviours pinned by theorems (C02 ..._out_of_domain_behaviour)
	for _, l := range []string{"Flag#A=1", "Flag#A7=0", "Flag#7A=5", "Flag#007=2", "HeartBeatTimer=4294967296", "SleepMode=4294967297", "SleepMode=2147483648",
		"HeartBeatTimer=99999999999999999999", "HWC#1=99999999999999999999", "HWCg#1=0/0,1x1:QR==", "HWCg#1=0/0,1x1:QQ=", "HeartBeatTimer=4294967301",
		"Flag#99999999999=1", "Flag#99999999999999999999=1"} {
		emitLines([]string{l})
	}
	emitLines([]string{"HWCgRGB#4,5=0:AAEC", "HWCgRGB#4,5=1:", "HWCgRGB#4,5=2:AwQF"})
	emitLines([]string{"HWCgRGB#4,5=0/2,64x32:AAEC", "HWCgRGB#4,5=1:", "HWCgRGB#4,5=2:AwQF"})
	g := &lgen{r: r, m: &mgen{r: r}}
	for i := 0; i < n; i++ {
		k := 1
		if r.Chance(40) {
			k = r.Range(2, 5)
		}
		var lines []string
		for j := 0; j < k; j++ {
			lines = append(lines, g.line()...)
		}
		emitLines(lines)
	}
	// scenario classes (after the random stream, so that the records above keep their seeds)
	scale := 1
	if tier == "thorough" {
		scale = 10
	}
	g.repeatScenarios(6 * scale)
	g.numeralScenarios(300 * scale)
	g.enumScenarios(300 * scale)
	g.seqScenarios(150 * scale)
	g.longLineScenarios()
	g.jsonGluedScenarios(150 * scale)
}

// ------------------------------------------------------------------------------------------------
// inbound half of C06: malformed lines, messages from proto.Unmarshal of mutated wire bytes
// ------------------------------------------------------------------------------------------------

var malformedFixed = []string{"[null]", "{", "[", "[1]", "{}", "[]", "[{}]", "[{},null,{}]", "{\"HWCIDs\":[1],\"HWCMode\":null}", "[{\"States\":[{\"HWCIDs\":[1]}]},null]",
	"{\"HWCIDs\":\"x\"}", "[{\"FlowMessage\":7}]", "{\"HWCText\":{\"Formatting\":10}}", "HWC#", "HWC#=", "HWC#1=", "HWC#,=5", "HWC#1,,2=5", "HWC#1=-5", "HWC#1=+5",
	"HWC#1=99999999999999999999", "HWC#99999999999999999999=1", "HWCx#1=abc", "HWCc#1=64x", "HWCt#1=", "HWCt#1=|", "HWCt#1=||||||||||||||||||||||||||||", "HWCt#1=a|b|c",
	"HWCt#1=99999999999999999999|10", "HWCt#1=-1|11", "HWCt#1=|7|", "HWCt#1=5|-3|-9|T|x", "HWCrawADCValues#1=2", "HWCg#1=0:", "HWCg#1=0:!!!!", "HWCg#1=0/0,1x1:QQ==", "HWCg#1=0/0,1x1:QQ=",
	"HWCg#1=0/0,1x1:QQ==QQ==", "HWCg#1=0/0,1x1:Q\rQ==", "HWCg#1=0/0,1x1,5:QQ==", "HWCg#1=0/,1x1:QQ==", "HWCg#1=1:QQ==", "HWCg#1=0/2,8x8:QUJD", "HWCgRGB#1=0/99999999999999999999,8x8:QUJD",
	"HWCg#1=99999999999999999999:QQ==", "HeartBeatTimer=", "HeartBeatTimer=-1", "HeartBeatTimer=5\n", "HeartBeatTimer=99999999999999999999", "PanelBrightness=1,", "PanelBrightness=,1", "PanelBrightness=1,2,3",
	"SetNetworkConfig=", "SetNetworkConfig={", "SetNetworkConfig=null", "SetNetworkConfig={\"dhcp\":1}", "SimulateEnvironmentalHealth=", "SimulateEnvironmentalHealth=normal", "SetCalibrationProfile=a\nb",
	"Mem=", "MemA=x", "Flag#A1=1", "Flag#=1", "Flag#99999999999999999999=99999999999999999999", "State1=1\n", "\n", "\r", "ping\n", "\x00", "\xff\xfe", "HWC#1=5\xff"}

func (g *lgen) malformed() string {
	base := g.line()
	l := base[g.r.Intn(len(base))]
	b := []byte(l)
	for k := g.r.Range(1, 3); k > 0; k-- {
		switch g.r.Intn(8) {
		case 0: // truncate
			if len(b) > 0 {
				b = b[:g.r.Intn(len(b))]
			}
		case 1: // wrong separator
			for i, c := range b {
				if (c == '=' || c == '#' || c == '|' || c == ',' || c == ':' || c == '/') && g.r.Chance(40) {
					b[i] = "=#|,:/;. "[g.r.Intn(9)]
				}
			}
		case 2: // huge number
			b = append(b, []byte("99999999999999999999")...)
		case 3: // high byte
			if len(b) > 0 {
				b[g.r.Intn(len(b))] = byte(g.r.Range(128, 255))
			}
		case 4: // LF / CR inside
			p := g.r.Intn(len(b) + 1)
			b = append(b[:p:p], append([]byte{"\n\r"[g.r.Intn(2)]}, b[p:]...)...)
		case 5: // duplicate a piece
			if len(b) > 1 {
				p := g.r.Intn(len(b))
				b = append(b, b[p:]...)
			}
		case 6: // insert a random byte
			p := g.r.Intn(len(b) + 1)
			b = append(b[:p:p], append([]byte{byte(g.r.U64())}, b[p:]...)...)
		case 7: // sign / space
			p := g.r.Intn(len(b) + 1)
			b = append(b[:p:p], append([]byte{"-+ "[g.r.Intn(3)]}, b[p:]...)...)
		}
	}
	return string(b)
}

func genC06in(r *Rng, n int, tier string) {
	for _, l := range malformedFixed {
		emitLines([]string{l})
	}
	// pinned defects: text state with formatting 10/11 and no TextStyling
	for _, f := range []int32{10, 11} {
		emitMsgs(one(&rwp.HWCState{HWCIDs: []uint32{1}, HWCText: &rwp.HWCText{Formatting: rwp.HWCText_FormattingE(f)}}))
	}
	g := &lgen{r: r, m: &mgen{r: r, wild: true}}
	for i := 0; i < n; i++ {
		switch r.Intn(3) {
		case 0: // malformed lines, possibly mixed with good ones
			k := r.Range(1, 4)
			var lines []string
			for j := 0; j < k; j++ {
				if r.Chance(70) {
					lines = append(lines, g.malformed())
				} else {
					lines = append(lines, g.line()...)
				}
			}
			emitLines(lines)
		case 1: // wild messages: any presence pattern, out-of-range enums and integers
			emitMsgs(g.m.msgs())
		case 2: // messages reachable from proto.Unmarshal of mutated wire bytes
			var ms []*rwp.InboundMessage
			for _, m := range g.m.msgs() {
				fixUTF8(m)
				wire, err := proto.Marshal(m)
				if err != nil {
					continue
				}
				for k := r.Intn(4); k > 0 && len(wire) > 0; k-- {
					wire[r.Intn(len(wire))] = byte(r.U64())
				}
				m2 := &rwp.InboundMessage{}
				if err := (proto.UnmarshalOptions{DiscardUnknown: true}).Unmarshal(wire, m2); err != nil {
					continue
				}
				ms = append(ms, m2)
			}
			emitMsgs(ms)
		}
	}
	// call sequences on hostile inputs: results kept across calls, two goroutines, objects reused (no panic, no hang,
	// the same results as one call after another)
	for i := 0; i < n/60+4; i++ {
		lists := make([][]*rwp.InboundMessage, r.Range(2, 4))
		for j := range lists {
			lists[j] = g.m.msgs()
		}
		switch i % 3 {
		case 0:
			emitMsgsLists("ein.par", lists...)
		case 1:
			emitMsgsLists("ein.seq", lists...)
		default:
			emitMsgsLists("ein.reuse", lists[0], lists[1])
		}
		batches := make([][]string, r.Range(2, 4))
		for b := range batches {
			for j := r.Range(1, 3); j > 0; j-- {
				if r.Chance(60) {
					batches[b] = append(batches[b], g.malformed())
				} else {
					batches[b] = append(batches[b], g.line()...)
				}
			}
		}
		emitLineBatches(batches...)
	}
}

// proto.Marshal rejects invalid UTF-8 in string fields: make the generated strings valid first
func fixUTF8(m *rwp.InboundMessage) {
	v := func(s string) string { return strings.ToValidUTF8(s, "?") }
	if m.Command != nil && m.Command.SetCalibrationProfile != nil {
		m.Command.SetCalibrationProfile.Json = v(m.Command.SetCalibrationProfile.Json)
	}
	for _, s := range m.States {
		if s.HWCText != nil {
			s.HWCText.Title, s.HWCText.Textline1, s.HWCText.Textline2 = v(s.HWCText.Title), v(s.HWCText.Textline1), v(s.HWCText.Textline2)
		}
	}
	for _, r := range m.Registers {
		r.Id = v(r.Id)
	}
}
