package main

// The base document of the svg.gen records (C15) as encoding/xml sees it, the lossy-feature flags, the judgement
// "valid document that the default decoder rejects", and a grammar of valid base documents.
//
//   TOKS := n TOK^n           the token stream of the base: Decoder.Token() (what xmldom.Parse reads) in lockstep with
//                             Decoder.RawToken() (the names as written, with their prefixes), up to the first error
//   TOK  := S pfx:hex local:hex nA (apfx:hex alocal:hex value:hex)^nA | E pfx:hex local:hex
//         | C text:hex        character data, bytes.TrimSpace applied ("-" = blank); a CDATA section is its own token
//         | M text:hex | P target:hex inst:hex (inst trimmed) | D text:hex
//   FEAT := F:- | F:f1,f2,…   computed HERE from the real token stream (not by the Lean side, which computes its own):
//     comment      a comment token
//     mixed-text   non-blank character data whose next start/end/text token is not the end tag of its element
//     ns-prefix    an element or attribute name written with a prefix
//     pi           a processing instruction that is not the first non-blank token of the document
//     dup-attr     a start tag with two attributes of the same local name
//     rej-encoding / rej-version / rej-entity   the default decoder fails, but the document tokenizes to the end and has
//                  an element when the decoder is given a CharsetReader for the declared (8-bit) encoding / the version
//                  1.1 is read as 1.0 / the entities of the internal DTD subset are known (Decoder.Entity)

import (
	"bytes"
	"encoding/xml"
	"io"
	"regexp"
	"strings"
)

type baseTok struct {
	kind      byte // S E C M P D
	pfx, name string
	attrs     [][3]string
	text      string
}

// baseTokens: Token() and RawToken() side by side
func baseTokens(s string) ([]baseTok, bool) {
	d1 := xml.NewDecoder(strings.NewReader(s))
	d2 := xml.NewDecoder(strings.NewReader(s))
	var out []baseTok
	for {
		t1, err := d1.Token()
		if err == io.EOF {
			return out, true
		}
		if err != nil {
			return out, false
		}
		t2, err2 := d2.RawToken()
		if err2 != nil {
			panic("Token and RawToken streams differ (error)")
		}
		switch x := t1.(type) {
		case xml.StartElement:
			y, ok := t2.(xml.StartElement)
			if !ok || y.Name.Local != x.Name.Local || len(y.Attr) != len(x.Attr) {
				panic("Token and RawToken streams differ (start)")
			}
			bt := baseTok{kind: 'S', pfx: y.Name.Space, name: y.Name.Local}
			for i, a := range y.Attr {
				if a.Name.Local != x.Attr[i].Name.Local || a.Value != x.Attr[i].Value {
					panic("Token and RawToken streams differ (attribute)")
				}
				bt.attrs = append(bt.attrs, [3]string{a.Name.Space, a.Name.Local, a.Value})
			}
			out = append(out, bt)
		case xml.EndElement:
			y, ok := t2.(xml.EndElement)
			if !ok || y.Name.Local != x.Name.Local {
				panic("Token and RawToken streams differ (end)")
			}
			out = append(out, baseTok{kind: 'E', pfx: y.Name.Space, name: y.Name.Local})
		case xml.CharData:
			if _, ok := t2.(xml.CharData); !ok {
				panic("Token and RawToken streams differ (text)")
			}
			out = append(out, baseTok{kind: 'C', text: string(bytes.TrimSpace(x))})
		case xml.Comment:
			out = append(out, baseTok{kind: 'M', text: string(x)})
		case xml.ProcInst:
			out = append(out, baseTok{kind: 'P', name: x.Target, text: string(bytes.TrimSpace(x.Inst))})
		case xml.Directive:
			out = append(out, baseTok{kind: 'D', text: string(x)})
		}
	}
}

func encBaseTokens(ts []baseTok) []string {
	o := []string{itoa(len(ts))}
	for _, t := range ts {
		switch t.kind {
		case 'S':
			o = append(o, "S", hx([]byte(t.pfx)), hx([]byte(t.name)), itoa(len(t.attrs)))
			for _, a := range t.attrs {
				o = append(o, hx([]byte(a[0])), hx([]byte(a[1])), hx([]byte(a[2])))
			}
		case 'E':
			o = append(o, "E", hx([]byte(t.pfx)), hx([]byte(t.name)))
		case 'P':
			o = append(o, "P", hx([]byte(t.name)), hx([]byte(t.text)))
		default:
			o = append(o, string(t.kind), hx([]byte(t.text)))
		}
	}
	return o
}

// lossyFeatures: which features of a (tokenizable) base the xmldom round trip is known not to keep
func lossyFeatures(ts []baseTok) []string {
	comment, mixed, prefix, pi, dup := false, false, false, false, false
	first := true // no non-blank token seen yet
	for i, t := range ts {
		switch t.kind {
		case 'M':
			comment = true
		case 'P':
			if !first {
				pi = true
			}
		case 'S':
			seen := map[string]bool{}
			for _, a := range t.attrs {
				if a[0] != "" {
					prefix = true
				}
				if seen[a[1]] {
					dup = true
				}
				seen[a[1]] = true
			}
			if t.pfx != "" {
				prefix = true
			}
		case 'E':
			if t.pfx != "" {
				prefix = true
			}
		case 'C':
			if t.text != "" {
				next := byte(0)
				for _, u := range ts[i+1:] {
					if u.kind == 'S' || u.kind == 'E' || u.kind == 'C' {
						next = u.kind
						break
					}
				}
				if next != 'E' {
					mixed = true
				}
			}
		}
		if !(t.kind == 'C' && t.text == "") {
			first = false
		}
	}
	var f []string
	for _, p := range []struct {
		on   bool
		name string
	}{{comment, "comment"}, {mixed, "mixed-text"}, {prefix, "ns-prefix"}, {pi, "pi"}, {dup, "dup-attr"}} {
		if p.on {
			f = append(f, p.name)
		}
	}
	return f
}

// ---- valid documents that the default decoder rejects ----

func latin1Reader(label string, input io.Reader) (io.Reader, error) {
	switch strings.ToLower(label) {
	case "iso-8859-1", "latin1", "us-ascii", "windows-1252":
		b, err := io.ReadAll(input)
		if err != nil {
			return nil, err
		}
		var sb strings.Builder
		for _, c := range b {
			sb.WriteRune(rune(c))
		}
		return strings.NewReader(sb.String()), nil
	}
	return nil, io.ErrUnexpectedEOF
}

var reVersion11 = regexp.MustCompile(`^(<\?xml\s+version\s*=\s*["'])1\.1(["'])`)
var reEntityDecl = regexp.MustCompile(`<!ENTITY\s+([A-Za-z_][A-Za-z0-9_.-]*)\s+"([^"<&%]*)"\s*>`)

// tokenizesWith: the document tokenizes to the end and has an element under the given liberalisation
func tokenizesWith(s string, charset, version, entity bool) bool {
	if version {
		s = reVersion11.ReplaceAllString(s, "${1}1.0${2}")
	}
	d := xml.NewDecoder(strings.NewReader(s))
	if charset {
		d.CharsetReader = latin1Reader
	}
	if entity {
		d.Entity = map[string]string{}
		// the declarations of the internal subset (the DOCTYPE directive precedes the root element)
		p := xml.NewDecoder(strings.NewReader(s))
		p.CharsetReader = latin1Reader
		for {
			t, err := p.RawToken()
			if err != nil {
				break
			}
			if _, ok := t.(xml.StartElement); ok {
				break
			}
			if dir, ok := t.(xml.Directive); ok && bytes.HasPrefix(dir, []byte("DOCTYPE")) {
				for _, m := range reEntityDecl.FindAllStringSubmatch(string(dir), -1) {
					d.Entity[m[1]] = m[2]
				}
			}
		}
	}
	elems := 0
	for {
		t, err := d.Token()
		if err == io.EOF {
			return elems > 0
		}
		if err != nil {
			return false
		}
		if _, ok := t.(xml.StartElement); ok {
			elems++
		}
	}
}

// rejectedClass: "" = the default decoder accepts the document, or no single liberalisation makes it tokenize
func rejectedClass(s string) string {
	if tokenizesWith(s, false, false, false) {
		return ""
	}
	switch {
	case tokenizesWith(s, true, false, false):
		return "rej-encoding"
	case tokenizesWith(s, false, true, false):
		return "rej-version"
	case tokenizesWith(s, false, false, true):
		return "rej-entity"
	}
	return ""
}

// baseSummary: the record fields that describe the base document: kinds endOk FEAT TOKS
func baseSummary(base string) []string {
	kinds, endOk := tokenKinds(base)
	ts, ok2 := baseTokens(base)
	if ok2 != endOk || len(ts) != len(kinds) {
		panic("token summary: Token() kinds and token list differ")
	}
	var f []string
	if endOk {
		f = lossyFeatures(ts)
	} else if c := rejectedClass(base); c != "" {
		f = []string{c}
	}
	feat := "F:-"
	if len(f) > 0 {
		feat = "F:" + strings.Join(f, ",")
	}
	return append([]string{hx([]byte(kinds)), b01(endOk), feat}, encBaseTokens(ts)...)
}

// ---- a grammar of valid base documents ----

type docGen struct {
	r     *Rng
	clean bool // no feature the round trip loses
	nsDecl map[string]bool
}

var elNames = []string{"g", "rect", "path", "text", "tspan", "defs", "style", "use", "image", "a", "my-el", "_x.1", "circle"}
var attrNames = []string{"id", "x", "y", "width", "height", "d", "style", "class", "viewBox", "fill", "href", "transform", "r"}
var prefixes = []string{"xlink", "xml", "s", "inkscape", "sodipodi"}

func (g *docGen) value() string {
	r := g.r
	n := r.Intn(4)
	var sb strings.Builder
	for i := 0; i < n; i++ {
		switch r.Intn(10) {
		case 0:
			sb.WriteString("&amp;")
		case 1:
			sb.WriteString("&lt;")
		case 2:
			sb.WriteString("&#169;")
		case 3:
			sb.WriteString("&#x3c;&gt;")
		case 4:
			sb.WriteString("'")
		case 5:
			sb.WriteString(" \n\t")
		case 6:
			sb.WriteString("æ€")
		case 7:
			sb.WriteString("&quot;")
		default:
			sb.WriteByte(byte(r.Range('a', 'z')))
		}
	}
	return sb.String()
}

// chars: non-blank character data (escaped as needed), possibly with blanks around it
func (g *docGen) chars() string {
	r := g.r
	var sb strings.Builder
	if r.Chance(30) {
		sb.WriteString([]string{" ", "\n  ", "\t", " ", "\r\n"}[r.Intn(5)])
	}
	n := 1 + r.Intn(3)
	for i := 0; i < n; i++ {
		switch r.Intn(9) {
		case 0:
			sb.WriteString("&amp;")
		case 1:
			sb.WriteString("&lt;x&gt;")
		case 2:
			sb.WriteString("&#169;")
		case 3:
			sb.WriteString("æ")
		case 4:
			sb.WriteString("a b")
		case 5:
			sb.WriteString("]]&gt;")
		case 6:
			sb.WriteString("\"q'")
		default:
			sb.WriteByte(byte(r.Range('a', 'z')))
		}
	}
	if r.Chance(30) {
		sb.WriteString([]string{" ", "\n", "\t ", "  "}[r.Intn(4)])
	}
	return sb.String()
}

func (g *docGen) blank() string {
	return []string{"", " ", "\n", "\n  ", "\t", "\r\n "}[g.r.Intn(6)]
}

func (g *docGen) comment() string {
	return "<!--" + []string{"", " c ", " a > b & c ", "\n two\n lines ", "<svg/>"}[g.r.Intn(5)] + "-->"
}

func (g *docGen) procInst() string {
	return []string{`<?foo bar?>`, `<?foo?>`, `<?xml-stylesheet href="s.css" type="text/css"?>`, `<?php echo 1; ?>`, "<?a  b \n?>"}[g.r.Intn(5)]
}

func (g *docGen) cdata() string {
	return "<![CDATA[" + []string{"", " ", " a > b { fill: red } ", "<g>&amp;</g>", "x", "]]"}[g.r.Intn(6)] + "]]>"
}

func (g *docGen) attrs(root bool) string {
	r := g.r
	var sb strings.Builder
	used := map[string]bool{}
	add := func(name, val string) {
		if used[name] {
			return // (an attribute name twice is not well-formed)
		}
		used[name] = true
		q := `"`
		if !strings.Contains(val, "'") && r.Chance(20) {
			q = `'`
		}
		if q == `'` {
			val = strings.ReplaceAll(val, "&quot;", `"`)
		}
		sep := " "
		if r.Chance(10) {
			sep = "\n   "
		}
		sb.WriteString(sep + name + "=" + q + val + q)
	}
	if root {
		if r.Chance(50) {
			add("xmlns", "http://www.w3.org/2000/svg")
		}
		if !g.clean {
			for _, p := range prefixes {
				if p != "xml" && g.nsDecl[p] {
					add("xmlns:"+p, "http://example.org/"+p)
				}
			}
		}
	}
	n := r.Intn(4)
	for i := 0; i < n; i++ {
		name := attrNames[r.Intn(len(attrNames))]
		if !g.clean && r.Chance(25) {
			var ps []string
			for _, p := range prefixes {
				if p == "xml" || g.nsDecl[p] {
					ps = append(ps, p)
				}
			}
			p := ps[r.Intn(len(ps))]
			if p == "xml" {
				name = "xml:" + []string{"space", "lang", "id"}[r.Intn(3)]
			} else {
				name = p + ":" + name
			}
		}
		add(name, g.value())
	}
	return sb.String()
}

func (g *docGen) elName() string {
	name := elNames[g.r.Intn(len(elNames))]
	if !g.clean && g.nsDecl["s"] && g.r.Chance(30) {
		name = "s:" + name
	}
	return name
}

// content of an element
func (g *docGen) content(depth int) string {
	r := g.r
	var sb strings.Builder
	if g.clean {
		// children (blanks between them), then at most one text run — or one CDATA section — as the last thing
		n := 0
		if depth < 3 {
			n = r.Intn(4)
		}
		for i := 0; i < n; i++ {
			sb.WriteString(g.blank())
			sb.WriteString(g.element(depth + 1))
		}
		switch r.Intn(4) {
		case 0:
			sb.WriteString(g.chars())
		case 1:
			if r.Chance(50) {
				sb.WriteString(g.blank() + g.cdata())
			} else {
				sb.WriteString(g.blank())
			}
		default:
			sb.WriteString(g.blank())
		}
		return sb.String()
	}
	n := r.Intn(5)
	for i := 0; i < n; i++ {
		switch r.Intn(9) {
		case 0, 1, 2:
			if depth < 3 {
				sb.WriteString(g.element(depth + 1))
			}
		case 3, 4:
			sb.WriteString(g.chars())
		case 5:
			sb.WriteString(g.comment())
		case 6:
			sb.WriteString(g.procInst())
		case 7:
			sb.WriteString(g.cdata())
		default:
			sb.WriteString(g.blank())
		}
	}
	return sb.String()
}

func (g *docGen) element(depth int) string {
	name := g.elName()
	as := g.attrs(depth == 0)
	if depth == 0 && g.r.Chance(8) {
		return "<" + name + as + "/>"
	}
	c := g.content(depth)
	if c == "" && g.r.Chance(50) {
		return "<" + name + as + g.blank() + "/>"
	}
	return "<" + name + as + ">" + c + "</" + name + g.blank() + ">"
}

func (g *docGen) misc() string {
	r := g.r
	var sb strings.Builder
	n := r.Intn(3)
	for i := 0; i < n; i++ {
		switch r.Intn(4) {
		case 0:
			if !g.clean {
				sb.WriteString(g.comment())
			}
		case 1:
			if !g.clean {
				sb.WriteString(g.procInst())
			}
		default:
			sb.WriteString([]string{" ", "\n", "\n\n"}[r.Intn(3)])
		}
	}
	return sb.String()
}

// document: prolog (declaration, misc, DOCTYPE, misc), root element, misc
func (g *docGen) document() string {
	r := g.r
	g.nsDecl = map[string]bool{}
	if !g.clean {
		for _, p := range prefixes {
			if p != "xml" && r.Chance(35) {
				g.nsDecl[p] = true
			}
		}
	}
	var sb strings.Builder
	switch r.Intn(5) {
	case 0:
		sb.WriteString(`<?xml version="1.0"?>`)
	case 1:
		sb.WriteString(`<?xml version="1.0" encoding="UTF-8"?>`)
	case 2:
		sb.WriteString(`<?xml version='1.0' encoding="utf-8" standalone="no" ?>`)
	}
	if g.clean && sb.Len() == 0 && r.Chance(15) {
		sb.WriteString(`<?xml-stylesheet href="s.css"?>`) // a leading processing instruction is kept
	}
	sb.WriteString(g.misc())
	switch r.Intn(6) {
	case 0:
		sb.WriteString(`<!DOCTYPE svg>`)
	case 1:
		sb.WriteString(`<!DOCTYPE svg PUBLIC "-//W3C//DTD SVG 1.1//EN" "http://www.w3.org/Graphics/SVG/1.1/DTD/svg11.dtd">`)
	case 2:
		sb.WriteString(`<!DOCTYPE svg [<!ENTITY e "v"> <!ELEMENT svg ANY>]>`)
		sb.WriteString(g.misc())
	}
	if r.Chance(50) {
		sb.WriteString(g.misc())
	}
	root := g.element(0)
	sb.WriteString(root)
	sb.WriteString(g.misc())
	return sb.String()
}

// grammarBase: a valid base document; `clean` = without any feature the xmldom round trip loses
func grammarBase(r *Rng) string {
	g := &docGen{r: r, clean: r.Chance(35)}
	return g.document()
}
