package main

import (
	"fmt"
	"strings"

	helpers "github.com/SKAARHOJ/rawpanel-lib"
	rwp "github.com/SKAARHOJ/rawpanel-lib/ibeam_rawpanel"
	"google.golang.org/protobuf/proto"
)

// C07: flattening of multi-line payloads and line-feeds in pass-through string fields, through the PUBLIC encoders.

type stripExec struct{}

func init() {
	registerExecutor("strip", &stripExec{})
	registerFamily("c07", genC07)
}

func hxList(ls []string) string {
	o := make([]string, len(ls))
	for i, l := range ls {
		o[i] = hx([]byte(l))
	}
	return strings.Join(o, ",")
}

// payload kinds: message field -> (encoder output line, key prefix)
func stripPayload(kind, s string) (lines []string, key string) {
	switch kind {
	case "cal":
		return helpers.InboundMessagesToRawPanelASCIIstrings([]*rwp.InboundMessage{{Command: &rwp.Command{SetCalibrationProfile: &rwp.CalibrationProfile{Json: s}}}}), "SetCalibrationProfile="
	case "topojson":
		l := helpers.OutboundMessagesToRawPanelASCIIstrings([]*rwp.OutboundMessage{{PanelTopology: &rwp.PanelTopology{Json: s}}})
		if len(l) == 2 {
			l = l[1:]
		}
		return l, "_panelTopology_HWC="
	case "burnin":
		return helpers.OutboundMessagesToRawPanelASCIIstrings([]*rwp.OutboundMessage{{BurninProfile: &rwp.BurninProfile{Json: s}}}), "_burninProfile="
	case "calib":
		return helpers.OutboundMessagesToRawPanelASCIIstrings([]*rwp.OutboundMessage{{CalibrationProfile: &rwp.CalibrationProfile{Json: s}}}), "_calibrationProfile="
	case "defcalib":
		return helpers.OutboundMessagesToRawPanelASCIIstrings([]*rwp.OutboundMessage{{DefaultCalibrationProfile: &rwp.CalibrationProfile{Json: s}}}), "_defaultCalibrationProfile="
	case "errmsg":
		return helpers.OutboundMessagesToRawPanelASCIIstrings([]*rwp.OutboundMessage{{ErrorMessage: &rwp.Message{Message: s}}}), "ErrorMsg="
	case "msg":
		return helpers.OutboundMessagesToRawPanelASCIIstrings([]*rwp.OutboundMessage{{Message: &rwp.Message{Message: s}}}), "Msg="
	case "svg":
		l := helpers.OutboundMessagesToRawPanelASCIIstrings([]*rwp.OutboundMessage{{PanelTopology: &rwp.PanelTopology{Svgbase: s}}})
		if len(l) == 2 {
			l = l[:1]
		}
		return l, "_panelTopology_svgbase="
	}
	panic("unknown payload kind " + kind)
}

var payloadKinds = []string{"cal", "topojson", "burnin", "calib", "defcalib", "errmsg", "msg"}

// pass-through string fields. A kind is one part or several parts joined by "+": every part is one message of ONE
// encoder call (so `model+oev` is a two-message outbound call whose first message carries the string in PanelInfo.Model
// and whose last message is an event). Parts that carry the string: the 12 field kinds + `inall` / `outall` (the string
// in every pass-through field of one message); parts that carry no string at all ("fillers"): iack, ist, icmd, ireg
// (inbound) and oev, oack, osleep, ohb, omap (outbound).
func stripMsgIn(kind, s string) *rwp.InboundMessage {
	tx := func(t *rwp.HWCText) *rwp.InboundMessage {
		return &rwp.InboundMessage{States: []*rwp.HWCState{{HWCIDs: []uint32{7}, HWCText: t}}}
	}
	switch kind {
	case "title":
		return tx(&rwp.HWCText{Title: s, IntegerValue: 5})
	case "line1":
		return tx(&rwp.HWCText{Textline1: s, Formatting: 7})
	case "line2":
		return tx(&rwp.HWCText{Textline2: s, Title: "T", PairMode: 1})
	case "regin":
		return &rwp.InboundMessage{Registers: []*rwp.Register{{Reg: rwp.Register_MEM, Id: s, Value: 3}}}
	case "inall":
		return &rwp.InboundMessage{
			States:    []*rwp.HWCState{{HWCIDs: []uint32{7, 8}, HWCText: &rwp.HWCText{Title: s, Formatting: 7, Textline1: s, Textline2: s, PairMode: 1}}},
			Registers: []*rwp.Register{{Reg: rwp.Register_MEM, Id: s, Value: 3}, {Reg: rwp.Register_FLAG, Id: s, Value: 1}}}
	case "iack":
		return &rwp.InboundMessage{FlowMessage: rwp.InboundMessage_ACK}
	case "ist":
		return &rwp.InboundMessage{States: []*rwp.HWCState{{HWCIDs: []uint32{9}, HWCMode: &rwp.HWCMode{State: 4}}}}
	case "icmd":
		return &rwp.InboundMessage{Command: &rwp.Command{ClearAll: true}}
	case "ireg":
		return &rwp.InboundMessage{Registers: []*rwp.Register{{Reg: rwp.Register_STATE, Id: "2", Value: 1}}}
	}
	return nil
}

func stripMsgOut(kind, s string) *rwp.OutboundMessage {
	pi := func(p *rwp.PanelInfo) *rwp.OutboundMessage { return &rwp.OutboundMessage{PanelInfo: p} }
	switch kind {
	case "model":
		return pi(&rwp.PanelInfo{Model: s})
	case "serial":
		return pi(&rwp.PanelInfo{Serial: s})
	case "version":
		return pi(&rwp.PanelInfo{SoftwareVersion: s})
	case "name":
		return pi(&rwp.PanelInfo{Name: s})
	case "platform":
		return pi(&rwp.PanelInfo{Platform: s})
	case "lockedips":
		return pi(&rwp.PanelInfo{LockedToIPs: []string{"10.0.0.1", s, "x"}})
	case "connections":
		return &rwp.OutboundMessage{Connections: &rwp.Connections{Connection: []string{s, "b"}}}
	case "regout":
		return &rwp.OutboundMessage{Registers: []*rwp.Register{{Reg: rwp.Register_SHIFT, Id: s, Value: 3}}}
	case "outall":
		return &rwp.OutboundMessage{
			PanelInfo:   &rwp.PanelInfo{Model: s, Serial: s, SoftwareVersion: s, Name: s, Platform: s, LockedToIPs: []string{s, "10.0.0.2", s}},
			Connections: &rwp.Connections{Connection: []string{s, "b", s}},
			Registers:   []*rwp.Register{{Reg: rwp.Register_SHIFT, Id: s, Value: 3}, {Reg: rwp.Register_MEM, Id: s, Value: 4}}}
	case "oev":
		return &rwp.OutboundMessage{Events: []*rwp.HWCEvent{{HWCID: 7, Binary: &rwp.BinaryEvent{Pressed: true}}}}
	case "oack":
		return &rwp.OutboundMessage{FlowMessage: rwp.OutboundMessage_ACK}
	case "osleep":
		return &rwp.OutboundMessage{SleepState: &rwp.SleepState{IsSleeping: true}}
	case "ohb":
		return &rwp.OutboundMessage{FlowMessage: rwp.OutboundMessage_PING}
	case "omap":
		return &rwp.OutboundMessage{HWCavailability: map[uint32]uint32{3: 1}}
	}
	return nil
}

func stripField(kind, s string) []string {
	parts := strings.Split(kind, "+")
	if stripMsgIn(parts[0], s) != nil {
		ms := []*rwp.InboundMessage{}
		for _, p := range parts {
			m := stripMsgIn(p, s)
			if m == nil {
				panic("unknown inbound field kind " + p)
			}
			ms = append(ms, m)
		}
		return helpers.InboundMessagesToRawPanelASCIIstrings(ms)
	}
	ms := []*rwp.OutboundMessage{}
	for _, p := range parts {
		m := stripMsgOut(p, s)
		if m == nil {
			panic("unknown field kind " + p)
		}
		ms = append(ms, m)
	}
	return helpers.OutboundMessagesToRawPanelASCIIstrings(ms)
}

var fieldKinds = []string{"title", "line1", "line2", "model", "serial", "version", "name", "platform", "lockedips", "connections", "regin", "regout"}
var fieldKindsIn = []string{"title", "line1", "line2", "regin", "inall"}
var fieldKindsOut = []string{"model", "serial", "version", "name", "platform", "lockedips", "connections", "regout", "outall"}
var fillersIn = []string{"iack", "ist", "icmd", "ireg"}
var fillersOut = []string{"oev", "oack", "osleep", "ohb", "omap"}

// multi-message calls: the string in an EARLIER message and a last message without any string (and the reverse, and
// a filler on both sides); `inall` / `outall` put it into every pass-through field of one message
func stripCallKinds() []string {
	var ks []string
	add := func(fields, fillers []string) {
		for _, k := range fields {
			ks = append(ks, k+"+"+k)
			for _, f := range fillers {
				ks = append(ks, k+"+"+f, f+"+"+k, f+"+"+k+"+"+f)
			}
		}
	}
	add(fieldKindsIn, fillersIn)
	add(fieldKindsOut, fillersOut)
	return ks
}

// a random call of 2..5 messages of one encoder, at least one of them carrying the string
func randCallKind(r *Rng) string {
	fields, fillers := fieldKindsOut, fillersOut
	if r.Bool() {
		fields, fillers = fieldKindsIn, fillersIn
	}
	n := r.Range(2, 5)
	parts := make([]string, n)
	for i := range parts {
		if r.Chance(35) {
			parts[i] = fields[r.Intn(len(fields))]
		} else {
			parts[i] = fillers[r.Intn(len(fillers))]
		}
	}
	parts[r.Intn(n)] = fields[r.Intn(len(fields))]
	return strings.Join(parts, "+")
}

func (e *stripExec) Exec(cmd string, a []string) string {
	if cmd == "strip.json" || cmd == "strip.svg" || cmd == "strip.field" {
		return withDebugVariant(cmd, a, e.exec1)
	}
	return e.exec1(cmd, a)
}

func (e *stripExec) exec1(cmd string, a []string) string {
	res := ""
	p := guarded(func() {
		switch cmd {
		case "strip.json":
			lines, key := stripPayload(a[0], string(unhx(a[1])))
			if len(lines) != 1 || !strings.HasPrefix(lines[0], key) {
				res = "shape:" + hxList(lines)
				return
			}
			res = hx([]byte(lines[0][len(key):]))
		case "strip.svg":
			lines, key := stripPayload("svg", string(unhx(a[0])))
			if len(lines) != 1 || !strings.HasPrefix(lines[0], key) {
				res = "shape:" + hxList(lines)
				return
			}
			res = hx([]byte(lines[0][len(key):]))
		case "strip.field":
			s := string(unhx(a[1]))
			res = hxList(stripField(a[0], s)) + ";" + hxList(stripField(a[0], strings.ReplaceAll(s, "\n", " ")))
		case "strip.wire":
			if a[0] != "gorwp" {
				panic("unknown writer " + a[0])
			}
			texts := make([]string, len(a)-1)
			for i := range texts {
				texts[i] = string(unhx(a[i+1]))
			}
			res = stripWireGorwp(texts)
		default:
			panic("unknown record " + cmd)
		}
	})
	if p != "" {
		return p
	}
	return res
}

var wsRunes = []string{" ", "\t", "\r", "\v", "\f", "\u0085", " ", " ", " ", " ", " ", " ", " ", " ", " ", "　"}

func randText(r *Rng, n int, svgish bool) string {
	var sb strings.Builder
	for i := 0; i < n; i++ {
		switch r.Intn(14) {
		case 0, 1:
			sb.WriteString("\n")
		case 2:
			sb.WriteString("\r\n")
		case 3:
			sb.WriteString(wsRunes[r.Intn(len(wsRunes))])
		case 4:
			if svgish {
				sb.WriteString(">")
			} else {
				sb.WriteString("}")
			}
		case 5:
			if svgish {
				sb.WriteString("<path d=\"M0 0")
			} else {
				sb.WriteString("{\"a\":")
			}
		case 6:
			sb.WriteString(string(rune(r.Range(0xa1, 0x2fff))))
		case 7:
			sb.WriteString(" ")
		default:
			sb.WriteByte(byte(r.Range(33, 126)))
		}
	}
	return sb.String()
}

var svgSamples = []string{
	"<svg>\n  <path d=\"M0 0\n  L1 1\"/>\n</svg>",
	"<svg\n width=\"10\"\n>\ntext node\n<g>\n</g>\n</svg>\n",
	"<a>\r\n<b/>\r\n</a>",
	"no tags at all\nsecond line",
	"",
	"\n",
	">\n>\n",
	"<t>a \n b</t>",
}

func genC07(r *Rng, n int, tier string) {
	for _, s := range svgSamples {
		emit("strip.svg", []byte(s))
		for _, k := range payloadKinds {
			emit("strip.json", k, []byte(s))
		}
		for _, k := range fieldKinds {
			emit("strip.field", k, []byte(s))
		}
	}
	// very long physical lines (an already minified profile / topology): 70 000 and 200 000 bytes on one line
	for _, ln := range []int{70000, 200000} {
		long := "{\"k\":\"" + strings.Repeat("abcdefghij", ln/10) + "\"}\n  [1,\n 2]\n"
		emit("strip.json", payloadKinds[r.Intn(len(payloadKinds))], []byte(long))
		emit("strip.svg", []byte("<svg>\n<path d=\""+strings.Repeat("M1 2 ", ln/5)+"\"/>\n</svg>"))
	}
	// multi-message calls of both encoders (one `strip.field` record = one encoder call)
	for _, k := range stripCallKinds() {
		emit("strip.field", k, []byte("a\nb"))
	}
	for _, s := range []string{"\n", "x\r\n y\n", "tail\n"} {
		for _, k := range []string{"outall+oev", "outall+oack+osleep", "oev+outall+ohb", "inall+iack", "inall+ist+icmd", "ist+inall+ireg"} {
			emit("strip.field", k, []byte(s))
		}
	}
	// the same strings on the wire: ASCII-mode client against a scripted panel; the LF-split stream must be the encoder's strings
	genC07Wire(r, c07WireTexts)
	for i := 0; i < n; i++ {
		l := r.Range(0, 40)
		switch r.Intn(3) {
		case 0:
			emit("strip.svg", []byte(randText(r, l, true)))
		case 1:
			emit("strip.json", payloadKinds[r.Intn(len(payloadKinds))], []byte(randText(r, l, false)))
		case 2:
			emit("strip.field", fieldKinds[r.Intn(len(fieldKinds))], []byte(randText(r, r.Range(0, 12), false)))
		}
	}
	// both ASCII writers with texts a writer could treat specially (format verbs, escapes, separators): ConnectToPanel's
	// and gorwp's (stripwire.go)
	genC07Wire(r, swTexts)
	genC07WireGorwp(r)
	// random multi-message calls (after the random stream above, so that those records keep their seeds)
	for i := 0; i < n/4; i++ {
		emit("strip.field", randCallKind(r), []byte(randText(r, r.Range(0, 12), false)))
	}
}

// C07 wire clause: messages whose strings end in / contain white space and line feeds, written by the real ASCII writer.
var c07WireTexts = []string{"ISO ", " lead", "a\nb", "tab\t", "x  ", "\n", "plain", "two\r\nlines "}

func genC07Wire(r *Rng, texts []string) {
	recs := []ndRec{}
	for si := 0; si < 4; si++ {
		msgs := []*rwp.InboundMessage{}
		for j := 0; j < 6; j++ {
			t := texts[r.Intn(len(texts))]
			u := texts[r.Intn(len(texts))]
			msgs = append(msgs, &rwp.InboundMessage{States: []*rwp.HWCState{{HWCIDs: []uint32{uint32(10*si + j + 1)},
				HWCText: &rwp.HWCText{Title: "T" + u, Formatting: 7, Textline1: "L" + t}}}})
		}
		items := [][]byte{}
		total := 7
		for _, m := range msgs {
			b, _ := proto.Marshal(m)
			items = append(items, b)
		}
		for _, l := range helpers.InboundMessagesToRawPanelASCIIstrings(msgs) {
			total += len(l) + 1
		}
		ptoks := ndHandshake("a")
		ptoks = append(ptoks, fmt.Sprintf("p%d:8000", total))
		// batches that encode to no string at all (an empty list, an empty message, a state with an empty text) sit between
		// the real ones: nothing may reach the wire for them
		nothing1, _ := proto.Marshal(&rwp.InboundMessage{})
		nothing2, _ := proto.Marshal(&rwp.InboundMessage{States: []*rwp.HWCState{{HWCIDs: []uint32{3}, HWCText: &rwp.HWCText{}}}})
		sub := []string{"sub", "h", "m" + ndItems(nil), "m" + ndItems(items[:3]), "m" + ndItems([][]byte{nothing1}), "m" + ndItems([][]byte{nothing2, nothing1}),
			"m" + ndItems(items[3:]), "m" + ndItems([][]byte{nothing2})}
		if si%2 == 1 {
			sub = []string{"sub", "h", "m" + ndItems(items)}
		}
		recs = append(recs, ndRecOf("net.c09", []string{"mode=a", "end=150", ndVoc(nil)}, ptoks, sub))
	}
	ndEmitBatch(recs)
}
