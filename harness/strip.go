package main

import (
	"fmt"
	"strings"

	helpers "github.com/SKAARHOJ/rawpanel-lib"
	rwp "github.com/SKAARHOJ/rawpanel-lib/ibeam_rawpanel"
	"google.golang.org/protobuf/proto"
)

// C07: flattening of multi-line payloads and line-feeds in pass-through string fields, through the PUBLIC encoders.

type stripExec struct{}

func init() {
	registerExecutor("strip", &stripExec{})
	registerFamily("c07", genC07)
}

func hxList(ls []string) string {
	o := make([]string, len(ls))
	for i, l := range ls {
		o[i] = hx([]byte(l))
	}
	return strings.Join(o, ",")
}

// payload kinds: message field -> (encoder output line, key prefix)
func stripPayload(kind, s string) (lines []string, key string) {
	switch kind {
	case "cal":
		return helpers.InboundMessagesToRawPanelASCIIstrings([]*rwp.InboundMessage{{Command: &rwp.Command{SetCalibrationProfile: &rwp.CalibrationProfile{Json: s}}}}), "SetCalibrationProfile="
	case "topojson":
		l := helpers.OutboundMessagesToRawPanelASCIIstrings([]*rwp.OutboundMessage{{PanelTopology: &rwp.PanelTopology{Json: s}}})
		if len(l) == 2 {
			l = l[1:]
		}
		return l, "_panelTopology_HWC="
	case "burnin":
		return helpers.OutboundMessagesToRawPanelASCIIstrings([]*rwp.OutboundMessage{{BurninProfile: &rwp.BurninProfile{Json: s}}}), "_burninProfile="
	case "calib":
		return helpers.OutboundMessagesToRawPanelASCIIstrings([]*rwp.OutboundMessage{{CalibrationProfile: &rwp.CalibrationProfile{Json: s}}}), "_calibrationProfile="
	case "defcalib":
		return helpers.OutboundMessagesToRawPanelASCIIstrings([]*rwp.OutboundMessage{{DefaultCalibrationProfile: &rwp.CalibrationProfile{Json: s}}}), "_defaultCalibrationProfile="
	case "errmsg":
		return helpers.OutboundMessagesToRawPanelASCIIstrings([]*rwp.OutboundMessage{{ErrorMessage: &rwp.Message{Message: s}}}), "ErrorMsg="
	case "msg":
		return helpers.OutboundMessagesToRawPanelASCIIstrings([]*rwp.OutboundMessage{{Message: &rwp.Message{Message: s}}}), "Msg="
	case "svg":
		l := helpers.OutboundMessagesToRawPanelASCIIstrings([]*rwp.OutboundMessage{{PanelTopology: &rwp.PanelTopology{Svgbase: s}}})
		if len(l) == 2 {
			l = l[:1]
		}
		return l, "_panelTopology_svgbase="
	}
	panic("unknown payload kind " + kind)
}

var payloadKinds = []string{"cal", "topojson", "burnin", "calib", "defcalib", "errmsg", "msg"}

// pass-through string fields
func stripField(kind, s string) []string {
	in := func(t *rwp.HWCText) []string {
		return helpers.InboundMessagesToRawPanelASCIIstrings([]*rwp.InboundMessage{{States: []*rwp.HWCState{{HWCIDs: []uint32{7}, HWCText: t}}}})
	}
	pi := func(p *rwp.PanelInfo) []string {
		return helpers.OutboundMessagesToRawPanelASCIIstrings([]*rwp.OutboundMessage{{PanelInfo: p}})
	}
	switch kind {
	case "title":
		return in(&rwp.HWCText{Title: s, IntegerValue: 5})
	case "line1":
		return in(&rwp.HWCText{Textline1: s, Formatting: 7})
	case "line2":
		return in(&rwp.HWCText{Textline2: s, Title: "T", PairMode: 1})
	case "model":
		return pi(&rwp.PanelInfo{Model: s})
	case "serial":
		return pi(&rwp.PanelInfo{Serial: s})
	case "version":
		return pi(&rwp.PanelInfo{SoftwareVersion: s})
	case "name":
		return pi(&rwp.PanelInfo{Name: s})
	case "platform":
		return pi(&rwp.PanelInfo{Platform: s})
	case "lockedips":
		return pi(&rwp.PanelInfo{LockedToIPs: []string{"10.0.0.1", s, "x"}})
	case "connections":
		return helpers.OutboundMessagesToRawPanelASCIIstrings([]*rwp.OutboundMessage{{Connections: &rwp.Connections{Connection: []string{s, "b"}}}})
	case "regin":
		return helpers.InboundMessagesToRawPanelASCIIstrings([]*rwp.InboundMessage{{Registers: []*rwp.Register{{Reg: rwp.Register_MEM, Id: s, Value: 3}}}})
	case "regout":
		return helpers.OutboundMessagesToRawPanelASCIIstrings([]*rwp.OutboundMessage{{Registers: []*rwp.Register{{Reg: rwp.Register_SHIFT, Id: s, Value: 3}}}})
	}
	panic("unknown field kind " + kind)
}

var fieldKinds = []string{"title", "line1", "line2", "model", "serial", "version", "name", "platform", "lockedips", "connections", "regin", "regout"}

func (e *stripExec) Exec(cmd string, a []string) string {
	if cmd == "strip.json" || cmd == "strip.svg" || cmd == "strip.field" {
		return withDebugVariant(cmd, a, e.exec1)
	}
	return e.exec1(cmd, a)
}

func (e *stripExec) exec1(cmd string, a []string) string {
	res := ""
	p := guarded(func() {
		switch cmd {
		case "strip.json":
			lines, key := stripPayload(a[0], string(unhx(a[1])))
			if len(lines) != 1 || !strings.HasPrefix(lines[0], key) {
				res = "shape:" + hxList(lines)
				return
			}
			res = hx([]byte(lines[0][len(key):]))
		case "strip.svg":
			lines, key := stripPayload("svg", string(unhx(a[0])))
			if len(lines) != 1 || !strings.HasPrefix(lines[0], key) {
				res = "shape:" + hxList(lines)
				return
			}
			res = hx([]byte(lines[0][len(key):]))
		case "strip.field":
			s := string(unhx(a[1]))
			res = hxList(stripField(a[0], s)) + ";" + hxList(stripField(a[0], strings.ReplaceAll(s, "\n", " ")))
		default:
			panic("unknown record " + cmd)
		}
	})
	if p != "" {
		return p
	}
	return res
}

var wsRunes = []string{" ", "\t", "\r", "\v", "\f", "\u0085", " ", " ", " ", " ", " ", " ", " ", " ", " ", "　"}

func randText(r *Rng, n int, svgish bool) string {
	var sb strings.Builder
	for i := 0; i < n; i++ {
		switch r.Intn(14) {
		case 0, 1:
			sb.WriteString("\n")
		case 2:
			sb.WriteString("\r\n")
		case 3:
			sb.WriteString(wsRunes[r.Intn(len(wsRunes))])
		case 4:
			if svgish {
				sb.WriteString(">")
			} else {
				sb.WriteString("}")
			}
		case 5:
			if svgish {
				sb.WriteString("<path d=\"M0 0")
			} else {
				sb.WriteString("{\"a\":")
			}
		case 6:
			sb.WriteString(string(rune(r.Range(0xa1, 0x2fff))))
		case 7:
			sb.WriteString(" ")
		default:
			sb.WriteByte(byte(r.Range(33, 126)))
		}
	}
	return sb.String()
}

var svgSamples = []string{
	"<svg>\n  <path d=\"M0 0\n  L1 1\"/>\n</svg>",
	"<svg\n width=\"10\"\n>\ntext node\n<g>\n</g>\n</svg>\n",
	"<a>\r\n<b/>\r\n</a>",
	"no tags at all\nsecond line",
	"",
	"\n",
	">\n>\n",
	"<t>a \n b</t>",
}

func genC07(r *Rng, n int, tier string) {
	for _, s := range svgSamples {
		emit("strip.svg", []byte(s))
		for _, k := range payloadKinds {
			emit("strip.json", k, []byte(s))
		}
		for _, k := range fieldKinds {
			emit("strip.field", k, []byte(s))
		}
	}
	// very long physical lines (an already minified profile / topology): 70 000 and 200 000 bytes on one line
	for _, ln := range []int{70000, 200000} {
		long := "{\"k\":\"" + strings.Repeat("abcdefghij", ln/10) + "\"}\n  [1,\n 2]\n"
		emit("strip.json", payloadKinds[r.Intn(len(payloadKinds))], []byte(long))
		emit("strip.svg", []byte("<svg>\n<path d=\""+strings.Repeat("M1 2 ", ln/5)+"\"/>\n</svg>"))
	}
	// the same strings on the wire: ASCII-mode client against a scripted panel; the LF-split stream must be the encoder's strings
	genC07Wire(r)
	for i := 0; i < n; i++ {
		l := r.Range(0, 40)
		switch r.Intn(3) {
		case 0:
			emit("strip.svg", []byte(randText(r, l, true)))
		case 1:
			emit("strip.json", payloadKinds[r.Intn(len(payloadKinds))], []byte(randText(r, l, false)))
		case 2:
			emit("strip.field", fieldKinds[r.Intn(len(fieldKinds))], []byte(randText(r, r.Range(0, 12), false)))
		}
	}
}

// C07 wire clause: messages whose strings end in / contain white space and line feeds, written by the real ASCII writer.
func genC07Wire(r *Rng) {
	recs := []ndRec{}
	texts := []string{"ISO ", " lead", "a\nb", "tab\t", "x  ", "\n", "plain", "two\r\nlines "}
	for si := 0; si < 4; si++ {
		msgs := []*rwp.InboundMessage{}
		for j := 0; j < 6; j++ {
			t := texts[r.Intn(len(texts))]
			u := texts[r.Intn(len(texts))]
			msgs = append(msgs, &rwp.InboundMessage{States: []*rwp.HWCState{{HWCIDs: []uint32{uint32(10*si + j + 1)},
				HWCText: &rwp.HWCText{Title: "T" + u, Formatting: 7, Textline1: "L" + t}}}})
		}
		items := [][]byte{}
		total := 7
		for _, m := range msgs {
			b, _ := proto.Marshal(m)
			items = append(items, b)
		}
		for _, l := range helpers.InboundMessagesToRawPanelASCIIstrings(msgs) {
			total += len(l) + 1
		}
		ptoks := ndHandshake("a")
		ptoks = append(ptoks, fmt.Sprintf("p%d:8000", total))
		// batches that encode to no string at all (an empty list, an empty message, a state with an empty text) sit between
		// the real ones: nothing may reach the wire for them
		nothing1, _ := proto.Marshal(&rwp.InboundMessage{})
		nothing2, _ := proto.Marshal(&rwp.InboundMessage{States: []*rwp.HWCState{{HWCIDs: []uint32{3}, HWCText: &rwp.HWCText{}}}})
		sub := []string{"sub", "h", "m" + ndItems(nil), "m" + ndItems(items[:3]), "m" + ndItems([][]byte{nothing1}), "m" + ndItems([][]byte{nothing2, nothing1}),
			"m" + ndItems(items[3:]), "m" + ndItems([][]byte{nothing2})}
		if si%2 == 1 {
			sub = []string{"sub", "h", "m" + ndItems(items)}
		}
		recs = append(recs, ndRecOf("net.c09", []string{"mode=a", "end=150", ndVoc(nil)}, ptoks, sub))
	}
	ndEmitBatch(recs)
}
