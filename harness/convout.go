package main

// C03 / C04 (+ outbound half of C06): the panel -> system ("outbound") ASCII converters.
//
// Records
//   eout.msgs <mode> <msgs>   | <n> <hexline>* ; <oracle>     mode d: OutboundMessagesToRawPanelASCIIstrings(msgs)
//                                                              mode c: one message, proto.Marshal -> proto.Unmarshal ->
//                                                              encoder -> strings.Join("\n") as rawpanel-lib-c/main.go:43
//   dout.lines <n> <hexline>* | <msgs> ; <oracle>              RawPanelASCIIstringsToOutboundMessages(lines)
//   eout.msgsx d <msgs> X n (mi ei ts absPrev speedPrev)* F k (mi fault)*   | as eout.msgs: the messages with the fields the ASCII
//                                                              form does not carry set (HWCEvent.Timestamp, AbsoluteEvent.PrevValue,
//                                                              SpeedEvent.PrevValue of event ei of message mi; BusStatus.Fault of message mi)
//   eout.seq k <msgs>*        | 2k line lists ; <oracle>       k calls; k snapshots at return time, then the k kept slices re-read after the last call
//   eout.par k <msgs>*        | the same, calls of even / odd index in two goroutines (convseq.go)
//   eout.reuse 2 <msgs> <msgs>| 2 line lists ; <oracle>        the second call converts the message objects of the first, overwritten in place
//   eout.fields               | the field names Message.field of the proto definitions reachable from OutboundMessage
//   dout.seq k (<n> <hexline>*)* | 2k <msgs> ; <oracle>        k calls of the decoder, results kept and re-read after the last call
//   dout.par as dout.seq      | the same, calls of even / odd index in two goroutines
//   dout.ctx <n> <hexline>*   | <msgs> ; <oracle> ( L <hexline> <msgs> )*   + what the decoder returns for each distinct line alone
//   dout.rx <regexvar>        | <hex of Regexp.String()>       the library's own compiled regex object (go:linkname)
//   dout.match <regexvar> <hexline> | - (no match) or M <hex submatch>*   FindStringSubmatch of that object
// Message token format: see lean/RawPanelVerif/Driver/ConvOut.lean.  Oracle entries are values of strconv /
// encoding/json the Lean models do not interpret (never compared numerically):
//   F prec gtok text   P text gtok   J <net fields> json   U json (~|+ <net fields>)

import (
	"encoding/json"
	"fmt"
	"math"
	"sort"
	"strconv"
	"strings"

	helpers "github.com/SKAARHOJ/rawpanel-lib"
	rwp "github.com/SKAARHOJ/rawpanel-lib/ibeam_rawpanel"
	"google.golang.org/protobuf/proto"
)

type convOutExec struct{}

func init() {
	registerExecutor("eout", &convOutExec{})
	registerExecutor("dout", &convOutExec{})
	registerFamily("c03", genC03)
	registerFamily("c04", genC04)
	registerFamily("c06out", genC06out)
}

// ---------------------------------------------------------------------------------------------
// canonical printing
// ---------------------------------------------------------------------------------------------

func hs(s string) string { return hx([]byte(s)) }

func gtok(f float32) string { return strconv.FormatFloat(float64(f), 'g', -1, 32) }

func bits(bs ...bool) string {
	var sb strings.Builder
	for _, b := range bs {
		sb.WriteString(b01(b))
	}
	return sb.String()
}

func netTokens(c *rwp.NetworkConfig) []string {
	return []string{b01(c.Dhcp), hs(c.Address), hs(c.Netmask), hs(c.Gateway), hs(c.FirstDns), hs(c.SecondDns), b01(c.NoDefaultRoute)}
}

func printOutMsg(m *rwp.OutboundMessage) []string {
	if m == nil {
		return []string{"N"}
	}
	t := []string{"M", fmt.Sprint(int32(m.FlowMessage))}
	keys := make([]uint32, 0, len(m.HWCavailability))
	for k := range m.HWCavailability {
		keys = append(keys, k)
	}
	sort.Slice(keys, func(i, j int) bool { return keys[i] < keys[j] })
	t = append(t, fmt.Sprint(len(keys)))
	for _, k := range keys {
		t = append(t, fmt.Sprint(k), fmt.Sprint(m.HWCavailability[k]))
	}
	if p := m.PanelInfo; p != nil {
		t = append(t, "+", hs(p.Model), hs(p.Serial), hs(p.Name), hs(p.SoftwareVersion), hs(p.Platform), b01(p.BluePillReady), fmt.Sprint(p.MaxClients), fmt.Sprint(len(p.LockedToIPs)))
		for _, ip := range p.LockedToIPs {
			t = append(t, hs(ip))
		}
		t = append(t, fmt.Sprint(int32(p.PanelType)))
		if s := p.RawPanelSupport; s != nil {
			t = append(t, "+", bits(s.ASCII, s.Binary, s.ASCII_JSONfeedback, s.ASCII_Inbound, s.ASCII_Outbound, s.Processors, s.System, s.RawADCValues, s.BurninProfile, s.EnvHealth, s.Registers, s.Calibration, s.NetworkSettings))
		} else {
			t = append(t, "~")
		}
	} else {
		t = append(t, "~")
	}
	if x := m.PanelTopology; x != nil {
		t = append(t, "+", hs(x.Svgbase), hs(x.Json))
	} else {
		t = append(t, "~")
	}
	if x := m.BurninProfile; x != nil {
		t = append(t, "+", hs(x.Json))
	} else {
		t = append(t, "~")
	}
	if x := m.NetworkConfig; x != nil {
		t = append(t, "+")
		t = append(t, netTokens(x)...)
	} else {
		t = append(t, "~")
	}
	if x := m.CalibrationProfile; x != nil {
		t = append(t, "+", hs(x.Json))
	} else {
		t = append(t, "~")
	}
	if x := m.DefaultCalibrationProfile; x != nil {
		t = append(t, "+", hs(x.Json))
	} else {
		t = append(t, "~")
	}
	if x := m.SleepTimeout; x != nil {
		t = append(t, "+", fmt.Sprint(x.Value))
	} else {
		t = append(t, "~")
	}
	if x := m.SleepState; x != nil {
		t = append(t, "+", b01(x.IsSleeping))
	} else {
		t = append(t, "~")
	}
	if x := m.HeartBeatTimer; x != nil {
		t = append(t, "+", fmt.Sprint(x.Value))
	} else {
		t = append(t, "~")
	}
	if x := m.DimmedGain; x != nil {
		t = append(t, "+", fmt.Sprint(x.Value))
	} else {
		t = append(t, "~")
	}
	if x := m.Connections; x != nil {
		t = append(t, "+", fmt.Sprint(len(x.Connection)))
		for _, c := range x.Connection {
			t = append(t, hs(c))
		}
	} else {
		t = append(t, "~")
	}
	if x := m.RunTimeStats; x != nil {
		t = append(t, "+", fmt.Sprint(x.BootsCount), fmt.Sprint(x.TotalUptime), fmt.Sprint(x.SessionUptime), fmt.Sprint(x.ScreenSaveOnTime))
	} else {
		t = append(t, "~")
	}
	if x := m.ErrorMessage; x != nil {
		t = append(t, "+", hs(x.Message))
	} else {
		t = append(t, "~")
	}
	if x := m.Message; x != nil {
		t = append(t, "+", hs(x.Message))
	} else {
		t = append(t, "~")
	}
	if x := m.EnvironmentalHealth; x != nil {
		t = append(t, "+", fmt.Sprint(int32(x.RunMode)))
	} else {
		t = append(t, "~")
	}
	if s := m.SysStat; s != nil {
		t = append(t, "+", fmt.Sprint(s.CPUUsage), hs(gtok(s.CPUTemp)), hs(gtok(s.ExtTemp)), hs(gtok(s.CPUVoltage)),
			fmt.Sprint(s.CPUFreqCurrent), fmt.Sprint(s.CPUFreqMin), fmt.Sprint(s.CPUFreqMax), fmt.Sprint(s.MemTotal), fmt.Sprint(s.MemFree),
			fmt.Sprint(s.MemAvailable), fmt.Sprint(s.MemBuffers), fmt.Sprint(s.MemCached),
			bits(s.UnderVoltageNow, s.UnderVoltage, s.FreqCapNow, s.FreqCap, s.ThrottledNow, s.Throttled, s.SoftTempLimitNow, s.SoftTempLimit))
	} else {
		t = append(t, "~")
	}
	t = append(t, fmt.Sprint(len(m.Events)))
	for _, e := range m.Events {
		t = append(t, fmt.Sprint(e.HWCID))
		if e.Binary != nil {
			t = append(t, "+", b01(e.Binary.Pressed), fmt.Sprint(int32(e.Binary.Edge)))
		} else {
			t = append(t, "~")
		}
		if e.Pulsed != nil {
			t = append(t, "+", fmt.Sprint(e.Pulsed.Value))
		} else {
			t = append(t, "~")
		}
		if e.Absolute != nil {
			t = append(t, "+", fmt.Sprint(e.Absolute.Value))
		} else {
			t = append(t, "~")
		}
		if e.Speed != nil {
			t = append(t, "+", fmt.Sprint(e.Speed.Value))
		} else {
			t = append(t, "~")
		}
		if e.RawAnalog != nil {
			t = append(t, "+", fmt.Sprint(e.RawAnalog.Value))
		} else {
			t = append(t, "~")
		}
	}
	t = append(t, fmt.Sprint(len(m.Registers)))
	for _, r := range m.Registers {
		t = append(t, fmt.Sprint(int32(r.Reg)), hs(r.Id), fmt.Sprint(r.Value))
	}
	return t
}

func printOutMsgs(ms []*rwp.OutboundMessage) []string {
	t := []string{fmt.Sprint(len(ms))}
	for _, m := range ms {
		t = append(t, printOutMsg(m)...)
	}
	return t
}

// ---------------------------------------------------------------------------------------------
// parsing (replay)
// ---------------------------------------------------------------------------------------------

type outTokReader struct {
	t []string
	i int
}

func (r *outTokReader) next() string {
	if r.i >= len(r.t) {
		panic("record truncated")
	}
	s := r.t[r.i]
	r.i++
	return s
}
func (r *outTokReader) u32() uint32 {
	v, err := strconv.ParseUint(r.next(), 10, 32)
	if err != nil {
		panic("bad uint32 token")
	}
	return uint32(v)
}
func (r *outTokReader) i32() int32 {
	v, err := strconv.ParseInt(r.next(), 10, 32)
	if err != nil {
		panic("bad int32 token")
	}
	return int32(v)
}
func (r *outTokReader) n() int       { return int(r.u32()) }
func (r *outTokReader) b() bool      { return r.next() == "1" }
func (r *outTokReader) str() string  { return string(unhx(r.next())) }
func (r *outTokReader) present() bool {
	s := r.next()
	if s == "+" {
		return true
	}
	if s != "~" {
		panic("bad presence token " + s)
	}
	return false
}
func (r *outTokReader) f32() float32 {
	v, _ := strconv.ParseFloat(r.str(), 32)
	return float32(v)
}
func (r *outTokReader) flags(n int) []bool {
	s := r.next()
	if len(s) != n {
		panic("bad flag token")
	}
	o := make([]bool, n)
	for i := range o {
		o[i] = s[i] == '1'
	}
	return o
}

func (r *outTokReader) net() *rwp.NetworkConfig {
	return &rwp.NetworkConfig{Dhcp: r.b(), Address: r.str(), Netmask: r.str(), Gateway: r.str(), FirstDns: r.str(), SecondDns: r.str(), NoDefaultRoute: r.b()}
}

func (r *outTokReader) msg() *rwp.OutboundMessage {
	k := r.next()
	if k == "N" {
		return nil
	}
	if k != "M" {
		panic("bad message token " + k)
	}
	m := &rwp.OutboundMessage{}
	m.FlowMessage = rwp.OutboundMessage_FlowMsg(r.i32())
	if n := r.n(); n > 0 {
		m.HWCavailability = map[uint32]uint32{}
		for i := 0; i < n; i++ {
			k := r.u32()
			m.HWCavailability[k] = r.u32()
		}
	}
	if r.present() {
		p := &rwp.PanelInfo{Model: r.str(), Serial: r.str(), Name: r.str(), SoftwareVersion: r.str(), Platform: r.str(), BluePillReady: r.b(), MaxClients: r.u32()}
		n := r.n()
		for i := 0; i < n; i++ {
			p.LockedToIPs = append(p.LockedToIPs, r.str())
		}
		p.PanelType = rwp.PanelInfo_PanelTypeE(r.i32())
		if r.present() {
			f := r.flags(13)
			p.RawPanelSupport = &rwp.RawPanelSupport{ASCII: f[0], Binary: f[1], ASCII_JSONfeedback: f[2], ASCII_Inbound: f[3], ASCII_Outbound: f[4], Processors: f[5], System: f[6], RawADCValues: f[7], BurninProfile: f[8], EnvHealth: f[9], Registers: f[10], Calibration: f[11], NetworkSettings: f[12]}
		}
		m.PanelInfo = p
	}
	if r.present() {
		m.PanelTopology = &rwp.PanelTopology{Svgbase: r.str(), Json: r.str()}
	}
	if r.present() {
		m.BurninProfile = &rwp.BurninProfile{Json: r.str()}
	}
	if r.present() {
		m.NetworkConfig = r.net()
	}
	if r.present() {
		m.CalibrationProfile = &rwp.CalibrationProfile{Json: r.str()}
	}
	if r.present() {
		m.DefaultCalibrationProfile = &rwp.CalibrationProfile{Json: r.str()}
	}
	if r.present() {
		m.SleepTimeout = &rwp.SleepTimeout{Value: r.u32()}
	}
	if r.present() {
		m.SleepState = &rwp.SleepState{IsSleeping: r.b()}
	}
	if r.present() {
		m.HeartBeatTimer = &rwp.HeartBeatTimer{Value: r.u32()}
	}
	if r.present() {
		m.DimmedGain = &rwp.DimmedGain{Value: r.u32()}
	}
	if r.present() {
		c := &rwp.Connections{}
		n := r.n()
		for i := 0; i < n; i++ {
			c.Connection = append(c.Connection, r.str())
		}
		m.Connections = c
	}
	if r.present() {
		m.RunTimeStats = &rwp.RunTimeStats{BootsCount: r.u32(), TotalUptime: r.u32(), SessionUptime: r.u32(), ScreenSaveOnTime: r.u32()}
	}
	if r.present() {
		m.ErrorMessage = &rwp.Message{Message: r.str()}
	}
	if r.present() {
		m.Message = &rwp.Message{Message: r.str()}
	}
	if r.present() {
		m.EnvironmentalHealth = &rwp.Environment{RunMode: rwp.Environment_RunModeE(r.i32())}
	}
	if r.present() {
		s := &rwp.SystemStat{CPUUsage: r.u32(), CPUTemp: r.f32(), ExtTemp: r.f32(), CPUVoltage: r.f32(),
			CPUFreqCurrent: r.i32(), CPUFreqMin: r.i32(), CPUFreqMax: r.i32(), MemTotal: r.i32(), MemFree: r.i32(), MemAvailable: r.i32(), MemBuffers: r.i32(), MemCached: r.i32()}
		f := r.flags(8)
		s.UnderVoltageNow, s.UnderVoltage, s.FreqCapNow, s.FreqCap, s.ThrottledNow, s.Throttled, s.SoftTempLimitNow, s.SoftTempLimit = f[0], f[1], f[2], f[3], f[4], f[5], f[6], f[7]
		m.SysStat = s
	}
	ne := r.n()
	for i := 0; i < ne; i++ {
		e := &rwp.HWCEvent{HWCID: r.u32()}
		if r.present() {
			e.Binary = &rwp.BinaryEvent{Pressed: r.b(), Edge: rwp.BinaryEvent_EdgeID(r.i32())}
		}
		if r.present() {
			e.Pulsed = &rwp.PulsedEvent{Value: r.i32()}
		}
		if r.present() {
			e.Absolute = &rwp.AbsoluteEvent{Value: r.u32()}
		}
		if r.present() {
			e.Speed = &rwp.SpeedEvent{Value: r.i32()}
		}
		if r.present() {
			e.RawAnalog = &rwp.RawAnalogEvent{Value: r.u32()}
		}
		m.Events = append(m.Events, e)
	}
	nr := r.n()
	for i := 0; i < nr; i++ {
		m.Registers = append(m.Registers, &rwp.Register{Reg: rwp.Register_RegisterE(r.i32()), Id: r.str(), Value: r.u32()})
	}
	return m
}

func (r *outTokReader) msgs() []*rwp.OutboundMessage {
	n := r.n()
	ms := make([]*rwp.OutboundMessage, 0, n)
	for i := 0; i < n; i++ {
		ms = append(ms, r.msg())
	}
	return ms
}

func parseOutMsgs(toks []string) []*rwp.OutboundMessage {
	r := &outTokReader{t: toks}
	ms := r.msgs()
	if r.i != len(toks) {
		panic("trailing tokens in message list")
	}
	return ms
}

// `k <msgs>*`
func parseOutMsgsLists(toks []string) [][]*rwp.OutboundMessage {
	r := &outTokReader{t: toks}
	k := r.n()
	lists := make([][]*rwp.OutboundMessage, k)
	for i := range lists {
		lists[i] = r.msgs()
	}
	if r.i != len(toks) {
		panic("trailing tokens in message lists")
	}
	return lists
}

// the fields the ASCII form does not carry: `X n (mi ei ts absPrev speedPrev)* F k (mi fault)*`
func (r *outTokReader) extras(ms []*rwp.OutboundMessage) {
	if r.next() != "X" {
		panic("expected X")
	}
	for n := r.n(); n > 0; n-- {
		mi, ei := r.n(), r.n()
		ts, ap, sp := r.u32(), r.u32(), r.i32()
		e := ms[mi].Events[ei]
		e.Timestamp = ts
		if e.Absolute != nil {
			e.Absolute.PrevValue = ap
		}
		if e.Speed != nil {
			e.Speed.PrevValue = sp
		}
	}
	if r.next() != "F" {
		panic("expected F")
	}
	for n := r.n(); n > 0; n-- {
		mi := r.n()
		ms[mi].BusStatus = &rwp.BusStatus{Fault: r.b()}
	}
}

func extraTokens(ms []*rwp.OutboundMessage) []string {
	x, f := []string{}, []string{}
	nx, nf := 0, 0
	for mi, m := range ms {
		if m == nil {
			continue
		}
		for ei, e := range m.Events {
			ap, sp := uint32(0), int32(0)
			if e.Absolute != nil {
				ap = e.Absolute.PrevValue
			}
			if e.Speed != nil {
				sp = e.Speed.PrevValue
			}
			if e.Timestamp != 0 || ap != 0 || sp != 0 {
				x = append(x, fmt.Sprint(mi), fmt.Sprint(ei), fmt.Sprint(e.Timestamp), fmt.Sprint(ap), fmt.Sprint(sp))
				nx++
			}
		}
		if m.BusStatus != nil {
			f = append(f, fmt.Sprint(mi), b01(m.BusStatus.Fault))
			nf++
		}
	}
	return append(append(append([]string{"X", fmt.Sprint(nx)}, x...), "F", fmt.Sprint(nf)), f...)
}

// ---------------------------------------------------------------------------------------------
// oracles: values of strconv / encoding/json (computed without the library)
// ---------------------------------------------------------------------------------------------

// what fmt's %.<prec>f prints for a float32 (fmt formats a float32 with strconv.AppendFloat(…, 'f', prec, 32))
func fmtF(f float32, prec int) string {
	return strconv.FormatFloat(float64(f), 'f', prec, 32)
}

func netFromJSON(s string) *rwp.NetworkConfig {
	c := &rwp.NetworkConfig{}
	if json.Unmarshal([]byte(s), c) != nil {
		return nil
	}
	return c
}

func oracleU(s string) []string {
	t := []string{"U", hs(s)}
	if c := netFromJSON(s); c != nil {
		t = append(t, "+")
		t = append(t, netTokens(c)...)
	} else {
		t = append(t, "~")
	}
	return t
}

func encOracle(ms []*rwp.OutboundMessage) []string {
	t := []string{}
	seen := map[string]bool{}
	add := func(e []string) {
		k := strings.Join(e, " ")
		if !seen[k] {
			seen[k] = true
			t = append(t, e...)
		}
	}
	for _, m := range ms {
		if m == nil {
			continue
		}
		if s := m.SysStat; s != nil {
			add([]string{"F", "1", hs(gtok(s.CPUTemp)), hs(fmtF(s.CPUTemp, 1))})
			add([]string{"F", "1", hs(gtok(s.ExtTemp)), hs(fmtF(s.ExtTemp, 1))})
			add([]string{"F", "2", hs(gtok(s.CPUVoltage)), hs(fmtF(s.CPUVoltage, 2))})
		}
		if c := m.NetworkConfig; c != nil {
			j, err := json.Marshal(c)
			js := string(j)
			if err != nil {
				js = ""
			}
			add(append(append([]string{"J"}, netTokens(c)...), hs(js)))
			add(oracleU(js))
		}
	}
	return t
}

func decOracle(lines []string) []string {
	t := []string{}
	seen := map[string]bool{}
	for _, l := range lines {
		if strings.HasPrefix(l, "SysStat=") {
			for _, p := range strings.Split(l[len("SysStat="):], ":") {
				if seen["P"+p] {
					continue
				}
				seen["P"+p] = true
				v, _ := strconv.ParseFloat(p, 32)
				t = append(t, "P", hs(p), hs(gtok(float32(v))))
			}
		}
		if strings.HasPrefix(l, "_networkConfig=") {
			v := l[len("_networkConfig="):]
			if !seen["U"+v] {
				seen["U"+v] = true
				t = append(t, oracleU(v)...)
			}
		}
	}
	return t
}

// ---------------------------------------------------------------------------------------------
// executor
// ---------------------------------------------------------------------------------------------

func hexLineList(ls []string) string {
	o := make([]string, 0, len(ls)+1)
	o = append(o, fmt.Sprint(len(ls)))
	for _, l := range ls {
		o = append(o, hs(l))
	}
	return strings.Join(o, " ")
}

func withOracle(res string, or []string) string {
	if len(or) == 0 {
		return res
	}
	return res + " ; " + strings.Join(or, " ")
}

func (e *convOutExec) Exec(cmd string, a []string) string { return withDebugVariant(cmd, a, e.exec1) }

func (e *convOutExec) exec1(cmd string, a []string) string {
	switch cmd {
	case "eout.msgs":
		ms := parseOutMsgs(a[1:])
		or := encOracle(ms)
		res := ""
		p := guarded(func() {
			switch a[0] {
			case "d":
				res = hexLineList(helpers.OutboundMessagesToRawPanelASCIIstrings(ms))
			case "c":
				if len(ms) != 1 {
					panic("mode c takes one message")
				}
				b, err := proto.Marshal(ms[0])
				if err != nil {
					res = "marshal-error"
					return
				}
				msg := &rwp.OutboundMessage{}
				if proto.Unmarshal(b, msg) != nil {
					res = "unmarshal-error"
					return
				}
				strs := helpers.OutboundMessagesToRawPanelASCIIstrings([]*rwp.OutboundMessage{msg})
				joined := ""
				if len(strs) >= 1 {
					joined = strings.Join(strs, "\n")
				}
				// C.CString(joined): the bytes + a NUL terminator; the C caller reads up to the first NUL
				if i := strings.IndexByte(joined, 0); i >= 0 {
					joined = joined[:i]
				}
				if joined == "" {
					res = "0"
				} else {
					res = hexLineList(strings.Split(joined, "\n"))
				}
			default:
				panic("unknown mode " + a[0])
			}
		})
		if p != "" {
			res = p
		}
		return withOracle(res, or)
	case "eout.msgsx":
		if a[0] != "d" {
			panic("eout.msgsx: mode d only")
		}
		r := &outTokReader{t: a[1:]}
		ms := r.msgs()
		r.extras(ms)
		if r.i != len(r.t) {
			panic("trailing tokens")
		}
		or := encOracle(ms)
		res := ""
		if p := guarded(func() { res = hexLineList(helpers.OutboundMessagesToRawPanelASCIIstrings(ms)) }); p != "" {
			res = p
		}
		return withOracle(res, or)
	case "eout.seq", "eout.par", "eout.reuse":
		lists := parseOutMsgsLists(a)
		var all []*rwp.OutboundMessage
		for _, l := range lists {
			all = append(all, l...)
		}
		or := encOracle(all)
		res := ""
		p := guarded(func() {
			held := make([][]string, len(lists))
			call := func(i int) { held[i] = helpers.OutboundMessagesToRawPanelASCIIstrings(lists[i]) }
			render := func(i int) string { return hexLineList(held[i]) }
			switch cmd {
			case "eout.seq":
				res = strings.Join(runSeq(len(lists), call, render), " ")
			case "eout.par":
				res = strings.Join(runPar(len(lists), call, render), " ")
			default:
				if len(lists) != 2 {
					panic("eout.reuse takes two message lists")
				}
				r1 := hexLineList(helpers.OutboundMessagesToRawPanelASCIIstrings(lists[0]))
				second := reuseObjects(lists[0], lists[1])
				res = r1 + " " + hexLineList(helpers.OutboundMessagesToRawPanelASCIIstrings(second))
			}
		})
		if p != "" {
			res = p
		}
		return withOracle(res, or)
	case "eout.fields":
		return strings.Join(protoFieldNames((&rwp.OutboundMessage{}).ProtoReflect().Descriptor()), " ")
	case "dout.seq", "dout.par":
		r := &outTokReader{t: a}
		k := r.n()
		batches := make([][]string, k)
		var all []string
		for b := range batches {
			for n := r.n(); n > 0; n-- {
				batches[b] = append(batches[b], r.str())
			}
			all = append(all, batches[b]...)
		}
		or := decOracle(all)
		res := ""
		p := guarded(func() {
			held := make([][]*rwp.OutboundMessage, k)
			call := func(i int) {
				held[i] = helpers.RawPanelASCIIstringsToOutboundMessages(append([]string{}, batches[i]...))
			}
			render := func(i int) string { return strings.Join(printOutMsgs(held[i]), " ") }
			if cmd == "dout.par" {
				res = strings.Join(runPar(k, call, render), " ")
			} else {
				res = strings.Join(runSeq(k, call, render), " ")
			}
		})
		if p != "" {
			res = p
		}
		return withOracle(res, or)
	case "dout.ctx":
		n, _ := strconv.Atoi(a[0])
		lines := make([]string, n)
		for i := 0; i < n; i++ {
			lines[i] = string(unhx(a[1+i]))
		}
		or := decOracle(lines)
		res := ""
		p := guarded(func() {
			res = strings.Join(printOutMsgs(helpers.RawPanelASCIIstringsToOutboundMessages(append([]string{}, lines...))), " ")
			seen := map[string]bool{}
			for _, l := range lines {
				if seen[l] {
					continue
				}
				seen[l] = true
				or = append(or, "L", hs(l))
				or = append(or, printOutMsgs(helpers.RawPanelASCIIstringsToOutboundMessages([]string{l}))...)
			}
		})
		if p != "" {
			res = p
		}
		if len(or) == 0 {
			return res
		}
		return res + " ; " + strings.Join(or, " ")
	case "dout.rx": // source text of the REAL compiled regular expression (reached by go:linkname, rxlink.go)
		rx := libRegex(a[0])
		if rx == nil {
			return "panic:unknown_regex"
		}
		return hs(rx.String())
	case "dout.match": // the real regexp's sub-matches on one line
		return rxMatchRecord(a[0], string(unhx(a[1])))
	case "dout.lines":
		n, _ := strconv.Atoi(a[0])
		lines := make([]string, n)
		for i := 0; i < n; i++ {
			lines[i] = string(unhx(a[1+i]))
		}
		or := decOracle(lines)
		res := ""
		p := guarded(func() {
			in := append([]string{}, lines...)
			res = strings.Join(printOutMsgs(helpers.RawPanelASCIIstringsToOutboundMessages(in)), " ")
		})
		if p != "" {
			res = p
		}
		return withOracle(res, or)
	}
	panic("unknown record " + cmd)
}

func outEmitMsgs(mode string, ms ...*rwp.OutboundMessage) {
	emitS("eout.msgs", append([]string{mode}, printOutMsgs(ms)...))
}

func outEmitLines(lines ...string) { outEmitLinesAs("dout.lines", lines...) }

func outEmitLinesAs(cmd string, lines ...string) {
	a := []string{fmt.Sprint(len(lines))}
	for _, l := range lines {
		a = append(a, hs(l))
	}
	emitS(cmd, a)
}

// dout.seq
func outEmitBatches(batches ...[]string) { outEmitBatchesAs("dout.seq", batches...) }

func outEmitBatchesAs(cmd string, batches ...[]string) {
	a := []string{fmt.Sprint(len(batches))}
	for _, b := range batches {
		a = append(a, fmt.Sprint(len(b)))
		for _, l := range b {
			a = append(a, hs(l))
		}
	}
	emitS(cmd, a)
}

// eout.seq / eout.par / eout.reuse
func outEmitLists(cmd string, lists ...[]*rwp.OutboundMessage) {
	a := []string{fmt.Sprint(len(lists))}
	for _, ms := range lists {
		a = append(a, printOutMsgs(ms)...)
	}
	emitS(cmd, a)
}

// eout.msgsx: the messages with their non-carried fields
func outEmitMsgsX(ms ...*rwp.OutboundMessage) {
	emitS("eout.msgsx", append(append([]string{"d"}, printOutMsgs(ms)...), extraTokens(ms)...))
}

// ---------------------------------------------------------------------------------------------
// value pools
// ---------------------------------------------------------------------------------------------

var u32Pool = []uint32{0, 1, 2, 5, 9, 10, 99, 100, 255, 256, 4095, 65535, 65536, 999999999, 1000000000, 2147483647, 2147483648, 4294967294, 4294967295}
var i32Pool = []int32{0, 1, -1, 2, -2, 9, 10, -10, 127, -128, 32767, -32768, 999999999, -999999999, 1000000000, 2147483646, 2147483647, -2147483647, -2147483648}
var edgePool = []int32{0, 1, 2, 4, 8, 16}
var edgeOdd = []int32{3, 5, 6, 7, 15, 17, 32, 255, -1, -16, 2147483647, -2147483648}

func (r *Rng) u32() uint32 {
	switch r.Intn(4) {
	case 0:
		return u32Pool[r.Intn(len(u32Pool))]
	case 1:
		return uint32(r.Intn(300))
	default:
		return uint32(r.U64())
	}
}
func (r *Rng) i32() int32 {
	switch r.Intn(4) {
	case 0:
		return i32Pool[r.Intn(len(i32Pool))]
	case 1:
		return int32(r.Intn(600) - 300)
	default:
		return int32(uint32(r.U64()))
	}
}

var textSamples = []string{"SK_MEGAPANEL", "RCP v2", "a", " ", "  lead and trail  ", "=", "a=b", "x:y;z,w", "#", "HWC#1=Down", "ping", "_model=x", "\t", "é", "日本語", "ünï", "\xc2\xa0x\xc2\xa0", "semi;colon", "1.2.3-beta+4", "0", "-", "\"q\"", "{}", "a|b"}

// printable ASCII + some multi-byte UTF-8, no LF
func randTxt(r *Rng, n int) string {
	var sb strings.Builder
	for i := 0; i < n; i++ {
		switch r.Intn(10) {
		case 0:
			sb.WriteString(string(rune(r.Range(0xa1, 0x2fff))))
		case 1:
			sb.WriteByte(' ')
		case 2:
			sb.WriteString([]string{"=", ":", ";", ",", "#", ".", "-"}[r.Intn(7)])
		default:
			sb.WriteByte(byte(r.Range(33, 126)))
		}
	}
	return sb.String()
}

// arbitrary bytes incl. >= 0x80 (possibly invalid UTF-8), no LF
func randBytesNoLF(r *Rng, n int) string {
	b := r.Bytes(n)
	for i := range b {
		if b[i] == '\n' {
			b[i] = 0x80
		}
	}
	return string(b)
}

func randField(r *Rng, allowInvalid bool) string {
	switch r.Intn(8) {
	case 0:
		return ""
	case 1, 2:
		return textSamples[r.Intn(len(textSamples))]
	case 3:
		if allowInvalid {
			return randBytesNoLF(r, r.Range(1, 8))
		}
		return randTxt(r, r.Range(1, 8))
	default:
		return randTxt(r, r.Range(1, 16))
	}
}

func randItem(r *Rng) string {
	for {
		s := strings.TrimSpace(strings.ReplaceAll(randTxt(r, r.Range(1, 12)), ";", ""))
		if s != "" {
			return s
		}
	}
}

var payloadSamples = []string{"", "{}", "{\"a\":1}", "{\n  \"HWc\": [\n    {\"id\": 1, \"x\": 10},\n    {\"id\": 2}\n  ]\n}", "<svg>\n  <path d=\"M0 0\n  L1 1\"/>\n</svg>", "<svg\n width=\"10\"\n>\ntext node\n<g>\n</g>\n</svg>\n", "line one\nline two", "  padded  ", "\n", " ", "plain", "ä\n ö ", "a\r\nb"}

func randPayload(r *Rng) string {
	switch r.Intn(4) {
	case 0:
		return payloadSamples[r.Intn(len(payloadSamples))]
	case 1:
		return randTxt(r, r.Range(0, 30))
	default:
		var sb strings.Builder
		n := r.Range(1, 5)
		for i := 0; i < n; i++ {
			if i > 0 {
				sb.WriteString([]string{"\n", "\r\n", "\n  ", " \n"}[r.Intn(4)])
			}
			sb.WriteString(randTxt(r, r.Range(0, 12)))
		}
		return sb.String()
	}
}

var floatPool = []float32{0, 1, -1, 0.04, 0.05, 0.06, 0.15, 0.25, 0.35, 45.25, 45.35, 99.95, -0.04, -0.05, -273.15, 1e10, -1e10, 3.4028235e38, -3.4028235e38, 1e-10, 1.17549435e-38, 1e-45, 0.005, 0.015, 1.005, 4.999, 5.125, 1234567.9}

func randFloat(r *Rng) float32 {
	switch r.Intn(4) {
	case 0:
		return floatPool[r.Intn(len(floatPool))]
	case 1:
		return float32(r.Intn(200000)-100000) / 100
	case 2:
		return float32(r.Intn(2000)-1000) / 8
	default:
		for {
			f := math.Float32frombits(uint32(r.U64()))
			if !math.IsNaN(float64(f)) && !math.IsInf(float64(f), 0) {
				return f
			}
		}
	}
}

func supportFromMask(mask int) *rwp.RawPanelSupport {
	b := func(i int) bool { return mask&(1<<i) != 0 }
	return &rwp.RawPanelSupport{ASCII: b(0), Binary: b(1), ASCII_JSONfeedback: b(2), ASCII_Inbound: b(3), ASCII_Outbound: b(4), System: b(5), RawADCValues: b(6), BurninProfile: b(7), EnvHealth: b(8), Registers: b(9), Calibration: b(10), Processors: b(11), NetworkSettings: b(12)}
}

func randSysStat(r *Rng) *rwp.SystemStat {
	s := &rwp.SystemStat{CPUUsage: r.u32(), CPUTemp: randFloat(r), ExtTemp: randFloat(r), CPUVoltage: randFloat(r),
		CPUFreqCurrent: r.i32(), CPUFreqMin: r.i32(), CPUFreqMax: r.i32(), MemTotal: r.i32(), MemFree: r.i32(), MemAvailable: r.i32(), MemBuffers: r.i32(), MemCached: r.i32(),
		UnderVoltageNow: r.Bool(), UnderVoltage: r.Bool(), FreqCapNow: r.Bool(), FreqCap: r.Bool(), ThrottledNow: r.Bool(), Throttled: r.Bool(), SoftTempLimitNow: r.Bool(), SoftTempLimit: r.Bool()}
	return s
}

func randNet(r *Rng) *rwp.NetworkConfig {
	ip := func() string {
		if r.Chance(20) {
			return ""
		}
		return fmt.Sprintf("%d.%d.%d.%d", r.Intn(256), r.Intn(256), r.Intn(256), r.Intn(256))
	}
	return &rwp.NetworkConfig{Dhcp: r.Bool(), Address: ip(), Netmask: ip(), Gateway: ip(), FirstDns: ip(), SecondDns: ip(), NoDefaultRoute: r.Bool()}
}

var regIDs = []string{"", "A", "B", "Z", "0", "9", "A1", "ZZ9", "ABCDEFGHIJKLMNOPQRSTUVWXYZ0123456789", "007", "12"}

func randRegister(r *Rng, inDomain bool) *rwp.Register {
	reg := rwp.Register_RegisterE(r.Intn(4))
	id := regIDs[r.Intn(len(regIDs))]
	if reg == rwp.Register_FLAG {
		id = []string{"", "0", "1", "7", "007", "42", "4294967295", "65535"}[r.Intn(8)]
	}
	if !inDomain {
		switch r.Intn(4) {
		case 0:
			reg = rwp.Register_RegisterE(r.Pick(4, 5, -1, 100))
		case 1:
			id = randTxt(r, r.Range(1, 5))
		case 2:
			if reg == rwp.Register_FLAG {
				id = "A1"
			}
		}
	}
	return &rwp.Register{Reg: reg, Id: id, Value: r.u32()}
}

func randEvent(r *Rng, inDomain bool) *rwp.HWCEvent {
	e := &rwp.HWCEvent{HWCID: r.u32()}
	if r.Chance(20) {
		e.Timestamp = r.u32()
	}
	edge := func() rwp.BinaryEvent_EdgeID {
		if !inDomain && r.Chance(40) {
			return rwp.BinaryEvent_EdgeID(edgeOdd[r.Intn(len(edgeOdd))])
		}
		return rwp.BinaryEvent_EdgeID(edgePool[r.Intn(len(edgePool))])
	}
	switch r.Intn(7) {
	case 0, 1:
		e.Binary = &rwp.BinaryEvent{Pressed: r.Bool(), Edge: edge()}
	case 2:
		e.Pulsed = &rwp.PulsedEvent{Value: r.i32()}
	case 3:
		e.Absolute = &rwp.AbsoluteEvent{Value: r.u32(), PrevValue: r.u32()}
	case 4:
		e.Speed = &rwp.SpeedEvent{Value: r.i32(), PrevValue: r.i32()}
	case 5:
		e.RawAnalog = &rwp.RawAnalogEvent{Value: r.u32()}
	case 6:
		// several kinds in one event record / none
		if r.Bool() {
			e.Binary = &rwp.BinaryEvent{Pressed: r.Bool(), Edge: edge()}
		}
		if r.Bool() {
			e.Pulsed = &rwp.PulsedEvent{Value: r.i32()}
		}
		if r.Bool() {
			e.Absolute = &rwp.AbsoluteEvent{Value: r.u32()}
		}
		if r.Bool() {
			e.Speed = &rwp.SpeedEvent{Value: r.i32()}
		}
		if r.Bool() {
			e.RawAnalog = &rwp.RawAnalogEvent{Value: r.u32()}
		}
	}
	return e
}

var flowVals = []int32{0, 1, 2, 3, 4, 5, 100}

// a random message; pct = percentage chance of each section being present; inDomain keeps values inside the ASCII-representable domain
func randOutMsg(r *Rng, pct int, inDomain bool, allowInvalidUTF8 bool) *rwp.OutboundMessage {
	m := &rwp.OutboundMessage{}
	has := func() bool { return r.Chance(pct) }
	if has() {
		m.FlowMessage = rwp.OutboundMessage_FlowMsg(flowVals[r.Intn(len(flowVals))])
		if !inDomain && r.Chance(30) {
			m.FlowMessage = rwp.OutboundMessage_FlowMsg(r.Pick(6, 7, 99, 101, -1, 2147483647))
		}
	}
	if has() {
		p := &rwp.PanelInfo{}
		if r.Bool() {
			p.Model = randField(r, allowInvalidUTF8)
		}
		if r.Bool() {
			p.Serial = randField(r, allowInvalidUTF8)
		}
		if r.Bool() {
			p.SoftwareVersion = randField(r, allowInvalidUTF8)
		}
		if r.Bool() {
			p.Name = randField(r, allowInvalidUTF8)
		}
		if r.Bool() {
			p.Platform = randField(r, allowInvalidUTF8)
		}
		p.BluePillReady = r.Bool()
		if r.Bool() {
			p.MaxClients = r.u32()
		}
		if r.Bool() {
			n := r.Range(0, 3)
			for i := 0; i < n; i++ {
				p.LockedToIPs = append(p.LockedToIPs, randItem(r))
			}
		}
		p.PanelType = rwp.PanelInfo_PanelTypeE(r.Intn(6))
		if !inDomain && r.Chance(30) {
			p.PanelType = rwp.PanelInfo_PanelTypeE(r.Pick(6, 7, -1, 250))
		}
		if r.Bool() {
			p.RawPanelSupport = supportFromMask(r.Intn(8192))
		}
		m.PanelInfo = p
	}
	if has() {
		m.PanelTopology = &rwp.PanelTopology{Svgbase: randPayload(r), Json: randPayload(r)}
	}
	if has() {
		m.BurninProfile = &rwp.BurninProfile{Json: randPayload(r)}
	}
	if has() {
		m.NetworkConfig = randNet(r)
	}
	if has() {
		m.CalibrationProfile = &rwp.CalibrationProfile{Json: randPayload(r)}
	}
	if has() {
		m.DefaultCalibrationProfile = &rwp.CalibrationProfile{Json: randPayload(r)}
	}
	if has() {
		m.SleepTimeout = &rwp.SleepTimeout{Value: r.u32()}
	}
	if has() {
		m.SleepState = &rwp.SleepState{IsSleeping: r.Bool()}
	}
	if has() {
		m.HeartBeatTimer = &rwp.HeartBeatTimer{Value: r.u32()}
	}
	if has() {
		m.DimmedGain = &rwp.DimmedGain{Value: r.u32()}
	}
	if has() {
		c := &rwp.Connections{}
		n := r.Range(0, 3)
		for i := 0; i < n; i++ {
			c.Connection = append(c.Connection, randItem(r))
		}
		m.Connections = c
	}
	if has() {
		m.RunTimeStats = &rwp.RunTimeStats{}
		if r.Bool() {
			m.RunTimeStats.BootsCount = r.u32()
		}
		if r.Bool() {
			m.RunTimeStats.TotalUptime = r.u32()
		}
		if r.Bool() {
			m.RunTimeStats.SessionUptime = r.u32()
		}
		if r.Bool() {
			m.RunTimeStats.ScreenSaveOnTime = r.u32()
		}
	}
	if has() {
		m.ErrorMessage = &rwp.Message{Message: randPayload(r)}
	}
	if has() {
		m.Message = &rwp.Message{Message: randPayload(r)}
	}
	if has() {
		n := r.Range(1, 6)
		m.HWCavailability = map[uint32]uint32{}
		for i := 0; i < n; i++ {
			m.HWCavailability[r.u32()] = r.u32()
		}
	}
	if has() {
		m.EnvironmentalHealth = &rwp.Environment{RunMode: rwp.Environment_RunModeE(r.Intn(3))}
		if !inDomain && r.Chance(30) {
			m.EnvironmentalHealth.RunMode = rwp.Environment_RunModeE(r.Pick(3, 4, -1))
		}
	}
	if has() {
		m.SysStat = randSysStat(r)
	}
	if has() {
		n := r.Range(1, 6)
		for i := 0; i < n; i++ {
			m.Events = append(m.Events, randEvent(r, inDomain))
		}
	}
	if has() {
		n := r.Range(1, 5)
		for i := 0; i < n; i++ {
			m.Registers = append(m.Registers, randRegister(r, inDomain))
		}
	}
	return m
}

// ---------------------------------------------------------------------------------------------
// C03 generator
// ---------------------------------------------------------------------------------------------

func genC03(r *Rng, n int, tier string) {
	both := func(m *rwp.OutboundMessage) {
		outEmitMsgs("d", m)
		outEmitMsgs("c", m)
	}
	// flow signals (all values incl. non-protocol ones) and the empty message
	for _, f := range []int32{0, 1, 2, 3, 4, 5, 6, 99, 100, 101, -1} {
		both(&rwp.OutboundMessage{FlowMessage: rwp.OutboundMessage_FlowMsg(f)})
	}
	// every event kind x id x edge x value at the boundaries
	ids := []uint32{0, 1, 5, 10, 255, 65535, 2147483648, 4294967295}
	for _, id := range ids {
		for _, edge := range append(append([]int32{}, edgePool...), edgeOdd...) {
			for _, pr := range []bool{true, false} {
				outEmitMsgs("d", &rwp.OutboundMessage{Events: []*rwp.HWCEvent{{HWCID: id, Binary: &rwp.BinaryEvent{Pressed: pr, Edge: rwp.BinaryEvent_EdgeID(edge)}}}})
			}
		}
		for _, v := range i32Pool {
			outEmitMsgs("d", &rwp.OutboundMessage{Events: []*rwp.HWCEvent{{HWCID: id, Pulsed: &rwp.PulsedEvent{Value: v}}, {HWCID: id, Speed: &rwp.SpeedEvent{Value: v}}}})
		}
		for _, v := range u32Pool {
			outEmitMsgs("d", &rwp.OutboundMessage{Events: []*rwp.HWCEvent{{HWCID: id, Absolute: &rwp.AbsoluteEvent{Value: v}}, {HWCID: id, RawAnalog: &rwp.RawAnalogEvent{Value: v}}}})
		}
	}
	// capability subsets
	masks := []int{0, 8191}
	for i := 0; i < 13; i++ {
		masks = append(masks, 1<<i, 8191^(1<<i))
	}
	if tier == "thorough" {
		masks = masks[:0]
		for i := 0; i < 8192; i++ {
			masks = append(masks, i)
		}
	} else {
		for i := 0; i < 300; i++ {
			masks = append(masks, r.Intn(8192))
		}
	}
	for i, mk := range masks {
		m := &rwp.OutboundMessage{PanelInfo: &rwp.PanelInfo{RawPanelSupport: supportFromMask(mk)}}
		outEmitMsgs("d", m)
		if i%8 == 0 {
			outEmitMsgs("c", m)
		}
	}
	// panel types, health, single identity fields
	for t := -1; t <= 7; t++ {
		both(&rwp.OutboundMessage{PanelInfo: &rwp.PanelInfo{PanelType: rwp.PanelInfo_PanelTypeE(t)}})
		both(&rwp.OutboundMessage{EnvironmentalHealth: &rwp.Environment{RunMode: rwp.Environment_RunModeE(t)}})
	}
	for _, s := range textSamples {
		both(&rwp.OutboundMessage{PanelInfo: &rwp.PanelInfo{Model: s}})
		outEmitMsgs("d", &rwp.OutboundMessage{PanelInfo: &rwp.PanelInfo{Serial: s, Name: s}})
		outEmitMsgs("d", &rwp.OutboundMessage{PanelInfo: &rwp.PanelInfo{SoftwareVersion: s, Platform: s}})
	}
	for _, b := range []bool{false, true} {
		both(&rwp.OutboundMessage{PanelInfo: &rwp.PanelInfo{BluePillReady: b}})
		both(&rwp.OutboundMessage{SleepState: &rwp.SleepState{IsSleeping: b}})
	}
	for _, v := range u32Pool {
		outEmitMsgs("d", &rwp.OutboundMessage{PanelInfo: &rwp.PanelInfo{MaxClients: v}})
		outEmitMsgs("d", &rwp.OutboundMessage{SleepTimeout: &rwp.SleepTimeout{Value: v}})
		outEmitMsgs("d", &rwp.OutboundMessage{HeartBeatTimer: &rwp.HeartBeatTimer{Value: v}})
		outEmitMsgs("d", &rwp.OutboundMessage{DimmedGain: &rwp.DimmedGain{Value: v}})
		outEmitMsgs("d", &rwp.OutboundMessage{RunTimeStats: &rwp.RunTimeStats{BootsCount: v}})
		outEmitMsgs("d", &rwp.OutboundMessage{RunTimeStats: &rwp.RunTimeStats{TotalUptime: v, SessionUptime: v + 1, ScreenSaveOnTime: v / 2}})
		outEmitMsgs("d", &rwp.OutboundMessage{HWCavailability: map[uint32]uint32{v: 4294967295 - v}})
		for reg := 0; reg < 4; reg++ {
			outEmitMsgs("d", &rwp.OutboundMessage{Registers: []*rwp.Register{{Reg: rwp.Register_RegisterE(reg), Id: []string{"A", "7", "B2", "C"}[reg], Value: v}}})
		}
	}
	// lists
	for _, l := range [][]string{nil, {}, {"10.0.0.1"}, {"10.0.0.1", "192.168.10.99"}, {"a", "b", "c"}, {"é"}} {
		both(&rwp.OutboundMessage{PanelInfo: &rwp.PanelInfo{LockedToIPs: l}})
		both(&rwp.OutboundMessage{Connections: &rwp.Connections{Connection: l}})
	}
	// payloads
	for _, s := range payloadSamples {
		both(&rwp.OutboundMessage{PanelTopology: &rwp.PanelTopology{Svgbase: s, Json: s}})
		outEmitMsgs("d", &rwp.OutboundMessage{BurninProfile: &rwp.BurninProfile{Json: s}})
		outEmitMsgs("d", &rwp.OutboundMessage{CalibrationProfile: &rwp.CalibrationProfile{Json: s}, DefaultCalibrationProfile: &rwp.CalibrationProfile{Json: s + "x"}})
		outEmitMsgs("d", &rwp.OutboundMessage{ErrorMessage: &rwp.Message{Message: s}, Message: &rwp.Message{Message: s}})
	}
	// SysStat: every float of the pool in every float field, all flags
	for i, f := range floatPool {
		s := &rwp.SystemStat{CPUTemp: f, ExtTemp: -f, CPUVoltage: f}
		both(&rwp.OutboundMessage{SysStat: s})
		s2 := randSysStat(r)
		s2.CPUVoltage = f
		s2.UnderVoltageNow, s2.SoftTempLimit = i%2 == 0, i%3 == 0
		outEmitMsgs("d", &rwp.OutboundMessage{SysStat: s2})
	}
	for i := 0; i < 8; i++ {
		s := &rwp.SystemStat{}
		f := []*bool{&s.UnderVoltageNow, &s.UnderVoltage, &s.FreqCapNow, &s.FreqCap, &s.ThrottledNow, &s.Throttled, &s.SoftTempLimitNow, &s.SoftTempLimit}
		*f[i] = true
		outEmitMsgs("d", &rwp.OutboundMessage{SysStat: s})
	}
	for _, v := range i32Pool {
		outEmitMsgs("d", &rwp.OutboundMessage{SysStat: &rwp.SystemStat{CPUFreqCurrent: v, CPUFreqMin: -v, CPUFreqMax: v, MemTotal: v, MemFree: v, MemAvailable: v, MemBuffers: v, MemCached: v}})
	}
	// network configurations
	for i := 0; i < 30; i++ {
		both(&rwp.OutboundMessage{NetworkConfig: randNet(r)})
	}
	both(&rwp.OutboundMessage{NetworkConfig: &rwp.NetworkConfig{}})
	// registers outside / at the edge of the id alphabet
	for i := 0; i < 60; i++ {
		outEmitMsgs("d", &rwp.OutboundMessage{Registers: []*rwp.Register{randRegister(r, false), randRegister(r, true)}})
	}
	// random messages: sparse, dense, many per call
	for i := 0; i < n; i++ {
		switch r.Intn(6) {
		case 0:
			outEmitMsgs("d", randOutMsg(r, 10, true, true))
		case 1:
			outEmitMsgs("d", randOutMsg(r, 50, true, true))
		case 2:
			outEmitMsgs("d", randOutMsg(r, 100, true, true))
		case 3:
			k := r.Range(2, 6)
			ms := []*rwp.OutboundMessage{}
			for j := 0; j < k; j++ {
				ms = append(ms, randOutMsg(r, r.Pick(10, 30, 60), true, true))
			}
			outEmitMsgs("d", ms...)
		case 4:
			m := randOutMsg(r, r.Pick(10, 50, 100), true, false)
			if r.Chance(15) { // a NUL byte in a string field: the C string ends there (outside the domain; correspondence only)
				nulInField(r, m)
			}
			outEmitMsgs("c", m)
		case 5:
			// values outside the ASCII-representable domain (correspondence only)
			outEmitMsgs("d", randOutMsg(r, 40, false, true))
		}
	}
	// scenario classes (after the random stream, so that the records above keep their seeds)
	scale := 1
	if tier == "thorough" {
		scale = 10
	}
	emitS("eout.fields", nil)
	nonCarriedScenarios(r, 400*scale)
	repeatScenariosOut(r, 60*scale)
	seqScenariosOut(r, 150*scale)
	longScenariosOut(r)
	hugeLineScenariosOut(r)
}

// ---------------------------------------------------------------------------------------------
// C03 scenario classes
// ---------------------------------------------------------------------------------------------

func cloneOut(m *rwp.OutboundMessage) *rwp.OutboundMessage { return proto.Clone(m).(*rwp.OutboundMessage) }

// (d) the fields the ASCII form does not carry (HWCEvent.Timestamp, AbsoluteEvent.PrevValue, SpeedEvent.PrevValue,
// BusStatus), set to arbitrary values AND to values coinciding with carried ones (PrevValue == Value, Timestamp == id ...)
func setNonCarried(r *Rng, m *rwp.OutboundMessage, coincide bool) {
	for _, e := range m.Events {
		pick := func(same uint32) uint32 {
			switch {
			case coincide && r.Chance(60):
				return same
			case r.Chance(20):
				return 0
			}
			return r.u32()
		}
		e.Timestamp = pick(e.HWCID)
		if e.Absolute != nil {
			e.Absolute.PrevValue = pick(e.Absolute.Value)
		}
		if e.Speed != nil {
			e.Speed.PrevValue = int32(pick(uint32(e.Speed.Value)))
		}
	}
	if r.Chance(50) {
		m.BusStatus = &rwp.BusStatus{Fault: r.Bool()}
	}
}

func nonCarriedScenarios(r *Rng, n int) {
	// every event kind with the previous value equal to / different from the value, at the boundaries
	for _, v := range u32Pool {
		for _, pv := range []uint32{v, v + 1, 0, 4294967295} {
			outEmitMsgsX(&rwp.OutboundMessage{Events: []*rwp.HWCEvent{
				{HWCID: 40, Absolute: &rwp.AbsoluteEvent{Value: v, PrevValue: pv}},
				{HWCID: 41, Timestamp: pv, Speed: &rwp.SpeedEvent{Value: int32(v), PrevValue: int32(pv)}},
				{HWCID: v, Timestamp: v, Binary: &rwp.BinaryEvent{Pressed: true, Edge: 4}},
				{HWCID: 42, Timestamp: pv, Pulsed: &rwp.PulsedEvent{Value: int32(pv)}},
				{HWCID: 43, Timestamp: 43, RawAnalog: &rwp.RawAnalogEvent{Value: v}}}})
		}
	}
	for _, f := range []bool{false, true} {
		outEmitMsgsX(&rwp.OutboundMessage{BusStatus: &rwp.BusStatus{Fault: f}})
		outEmitMsgsX(&rwp.OutboundMessage{FlowMessage: 1, BusStatus: &rwp.BusStatus{Fault: f}, Events: []*rwp.HWCEvent{{HWCID: 7, Binary: &rwp.BinaryEvent{Pressed: f}}}})
	}
	for i := 0; i < n; i++ {
		k := r.Range(1, 3)
		ms := []*rwp.OutboundMessage{}
		for j := 0; j < k; j++ {
			m := randOutMsg(r, r.Pick(10, 30, 60), true, true)
			if len(m.Events) == 0 || r.Chance(50) {
				for e := r.Range(1, 5); e > 0; e-- {
					m.Events = append(m.Events, randEvent(r, true))
				}
			}
			setNonCarried(r, m, i%2 == 0)
			ms = append(ms, m)
		}
		outEmitMsgsX(ms...)
	}
}

// (b) the same message / event / register more than once in one call with others in between
func repeatScenariosOut(r *Rng, n int) {
	for i := 0; i < n; i++ {
		a, b := randOutMsg(r, r.Pick(10, 30, 60), true, true), randOutMsg(r, r.Pick(10, 30), true, true)
		outEmitMsgs("d", a, b, cloneOut(a))
		outEmitMsgs("d", a, cloneOut(a))
		outEmitMsgs("d", a, &rwp.OutboundMessage{FlowMessage: rwp.OutboundMessage_PING}, cloneOut(a), b, cloneOut(a))
		ea, eb := randEvent(r, true), randEvent(r, true)
		ea.Timestamp, eb.Timestamp = 0, 0
		if ea.Absolute != nil {
			ea.Absolute.PrevValue = 0
		}
		if ea.Speed != nil {
			ea.Speed.PrevValue = 0
		}
		eb.HWCID = ea.HWCID
		ea2 := proto.Clone(ea).(*rwp.HWCEvent)
		outEmitMsgs("d", &rwp.OutboundMessage{Events: []*rwp.HWCEvent{ea, eb, ea2}})
		outEmitMsgs("d", &rwp.OutboundMessage{Events: []*rwp.HWCEvent{ea}}, &rwp.OutboundMessage{Events: []*rwp.HWCEvent{eb}}, &rwp.OutboundMessage{Events: []*rwp.HWCEvent{ea2}})
		outEmitMsgs("d", &rwp.OutboundMessage{Events: []*rwp.HWCEvent{ea, ea2, proto.Clone(ea).(*rwp.HWCEvent)}})
		ra, rb := randRegister(r, true), randRegister(r, true)
		outEmitMsgs("d", &rwp.OutboundMessage{Registers: []*rwp.Register{ra, rb, proto.Clone(ra).(*rwp.Register)}})
	}
}

// (a) results of earlier calls are not changed by later calls; (e) message objects converted, overwritten in place,
// converted again
func seqScenariosOut(r *Rng, n int) {
	ev := func(first, k int, down bool) []*rwp.OutboundMessage {
		ms := []*rwp.OutboundMessage{}
		for i := 0; i < k; i++ {
			ms = append(ms, &rwp.OutboundMessage{Events: []*rwp.HWCEvent{{HWCID: uint32(first + i), Binary: &rwp.BinaryEvent{Pressed: down}}}})
		}
		return ms
	}
	outEmitLists("eout.seq", ev(1, 8, true), ev(101, 8, false), ev(40, 3, true))
	outEmitLists("eout.par", ev(1, 8, true), ev(101, 8, false), ev(40, 3, true), ev(201, 5, false))
	// a statistics record refreshed in place and published again
	s1 := &rwp.SystemStat{CPUUsage: 4, CPUTemp: 56, ExtTemp: -100, CPUVoltage: 0.85, CPUFreqCurrent: 1500000, MemTotal: 1893788, MemFree: 1637268}
	s2 := &rwp.SystemStat{CPUUsage: 97, CPUTemp: 81.5, ExtTemp: -100, CPUVoltage: 0.85, CPUFreqCurrent: 1500000, MemTotal: 1893788, MemFree: 20480, ThrottledNow: true, Throttled: true}
	outEmitLists("eout.reuse", []*rwp.OutboundMessage{{SysStat: s1}}, []*rwp.OutboundMessage{{SysStat: s2}})
	for i := 0; i < n; i++ {
		k := r.Range(2, 4)
		lists := make([][]*rwp.OutboundMessage, k)
		for j := range lists {
			for q := r.Range(1, 3); q > 0; q-- {
				lists[j] = append(lists[j], randOutMsg(r, r.Pick(10, 30, 60), true, true))
			}
		}
		if r.Chance(25) {
			lists = append(lists, lists[0])
		}
		if i%4 == 3 {
			outEmitLists("eout.par", lists...)
		} else {
			outEmitLists("eout.seq", lists...)
		}
		var a, b []*rwp.OutboundMessage
		switch r.Intn(3) {
		case 0: // all sections in both: every sub-message object is used twice
			a, b = []*rwp.OutboundMessage{randOutMsg(r, 100, true, true)}, []*rwp.OutboundMessage{randOutMsg(r, 100, true, true)}
		case 1:
			a, b = []*rwp.OutboundMessage{randOutMsg(r, 60, true, true)}, []*rwp.OutboundMessage{randOutMsg(r, 60, true, true)}
		default:
			a = []*rwp.OutboundMessage{randOutMsg(r, 50, true, true), randOutMsg(r, 100, true, true)}
			b = []*rwp.OutboundMessage{randOutMsg(r, 100, true, true), randOutMsg(r, 50, true, true), randOutMsg(r, 30, true, true)}
		}
		outEmitLists("eout.reuse", a, b)
	}
}

// (f) lines longer than the debug dump's patience: topology / profile payloads, long message texts and names
func longScenariosOut(r *Rng) {
	for _, n := range []int{201, 300, 499, 500, 501, 700, 2000, 6000} {
		txt := strings.Repeat("abcdefghi ", n/10+1)[:n-1] + "z"
		svg := "<svg width=\"10\" height=\"10\">\n" + strings.Repeat("<rect x=\"1\" y=\"2\" width=\"3\"/>", n/30+1) + "\n</svg>"
		js := "{\"HWc\":[" + strings.Repeat("{\"id\":1,\"x\":10,\"y\":20,\"txt\":\"Button\"},", n/40+1) + "{}]}"
		outEmitMsgs("d", &rwp.OutboundMessage{PanelTopology: &rwp.PanelTopology{Svgbase: svg, Json: js}})
		outEmitMsgs("d", &rwp.OutboundMessage{BurninProfile: &rwp.BurninProfile{Json: js}}, &rwp.OutboundMessage{CalibrationProfile: &rwp.CalibrationProfile{Json: js}, DefaultCalibrationProfile: &rwp.CalibrationProfile{Json: js}})
		outEmitMsgs("d", &rwp.OutboundMessage{Message: &rwp.Message{Message: txt}, ErrorMessage: &rwp.Message{Message: txt}})
		outEmitMsgs("d", &rwp.OutboundMessage{PanelInfo: &rwp.PanelInfo{Name: txt, Model: txt}}, &rwp.OutboundMessage{FlowMessage: 1})
		outEmitMsgs("d", &rwp.OutboundMessage{Connections: &rwp.Connections{Connection: []string{txt[:n/2], txt[n/2:]}}})
		outEmitMsgs("c", &rwp.OutboundMessage{PanelTopology: &rwp.PanelTopology{Svgbase: svg, Json: js}})
	}
}

// a payload of one physical line of exactly n bytes (n >= 40): JSON-like or SVG-like
func oneLineJSON(n int) string {
	head, tail := "{\"HWc\":[", "{}]}"
	unit := "{\"id\":1,\"x\":10,\"y\":20,\"txt\":\"Button\"},"
	body := strings.Repeat(unit, (n-len(head)-len(tail))/len(unit))
	pad := n - len(head) - len(tail) - len(body)
	return head + body + strings.Repeat(" ", pad) + tail
}

func oneLineSVG(n int) string {
	head, tail := "<svg width=\"10\" height=\"10\">", "</svg>"
	unit := "<rect x=\"1\" y=\"2\" width=\"3\"/>"
	body := strings.Repeat(unit, (n-len(head)-len(tail))/len(unit))
	pad := n - len(head) - len(tail) - len(body)
	return head + body + strings.Repeat(" ", pad) + tail
}

// (g) payloads with ONE physical line at and beyond 64 KiB (an already minified topology / profile of a large panel, a
// long message), alone and after a short first line, in every payload-carrying field of the outbound encoder
func hugeLineScenariosOut(r *Rng) {
	for _, n := range []int{65535, 65536, 70000} {
		for shape := 0; shape < 2; shape++ {
			js, svg, txt := oneLineJSON(n), oneLineSVG(n), strings.Repeat("abcdefghi ", n/10+1)[:n-1]+"z"
			if shape == 1 {
				js, svg, txt = "{\"a\": 1,\n \"b\":"+js+"\n}", "<!-- base -->\n"+svg+"\n", "first line\n"+txt+"\nlast"
			}
			outEmitMsgs("d", &rwp.OutboundMessage{PanelTopology: &rwp.PanelTopology{Svgbase: svg, Json: js}})
			switch r.Intn(3) {
			case 0:
				outEmitMsgs("d", &rwp.OutboundMessage{BurninProfile: &rwp.BurninProfile{Json: js}})
			case 1:
				outEmitMsgs("d", &rwp.OutboundMessage{CalibrationProfile: &rwp.CalibrationProfile{Json: js}})
			case 2:
				outEmitMsgs("d", &rwp.OutboundMessage{DefaultCalibrationProfile: &rwp.CalibrationProfile{Json: js}})
			}
			if r.Bool() {
				outEmitMsgs("d", &rwp.OutboundMessage{Message: &rwp.Message{Message: txt}})
			} else {
				outEmitMsgs("d", &rwp.OutboundMessage{ErrorMessage: &rwp.Message{Message: txt}})
			}
		}
	}
	// every payload field in one call, C binding, and one 300 000-byte line
	js, txt := "[\n"+oneLineJSON(65536)+"\n]", "m\n"+strings.Repeat("y", 65536)
	outEmitMsgs("d", &rwp.OutboundMessage{BurninProfile: &rwp.BurninProfile{Json: js}, CalibrationProfile: &rwp.CalibrationProfile{Json: js}},
		&rwp.OutboundMessage{DefaultCalibrationProfile: &rwp.CalibrationProfile{Json: js}, Message: &rwp.Message{Message: txt}, ErrorMessage: &rwp.Message{Message: txt}})
	outEmitMsgs("c", &rwp.OutboundMessage{BurninProfile: &rwp.BurninProfile{Json: js}})
	outEmitMsgs("d", &rwp.OutboundMessage{BurninProfile: &rwp.BurninProfile{Json: "{\n" + oneLineJSON(300000) + "}"}})
}

// put a NUL byte into one string field of the message (C binding: C.CString truncation)
func nulInField(r *Rng, m *rwp.OutboundMessage) {
	ins := func(s string) string { // at a rune boundary: the field must stay valid UTF-8 (proto.Marshal)
		i := r.Intn(len(s) + 1)
		for i < len(s) && s[i]&0xC0 == 0x80 {
			i++
		}
		return s[:i] + "\x00" + s[i:]
	}
	switch r.Intn(5) {
	case 0:
		if m.PanelInfo == nil {
			m.PanelInfo = &rwp.PanelInfo{}
		}
		m.PanelInfo.Model = ins(m.PanelInfo.Model)
	case 1:
		if m.PanelInfo == nil {
			m.PanelInfo = &rwp.PanelInfo{}
		}
		m.PanelInfo.Name = ins(m.PanelInfo.Name)
	case 2:
		if m.Message == nil {
			m.Message = &rwp.Message{}
		}
		m.Message.Message = ins(m.Message.Message)
	case 3:
		m.Registers = append(m.Registers, &rwp.Register{Reg: rwp.Register_MEM, Id: ins("A1"), Value: 5})
	case 4:
		if m.Connections == nil {
			m.Connections = &rwp.Connections{}
		}
		m.Connections.Connection = append(m.Connections.Connection, ins("10.0.0.1"))
	}
}

// ---------------------------------------------------------------------------------------------
// C04 generator: lines from the grammar
// ---------------------------------------------------------------------------------------------

var capNames = []string{"ASCII", "Binary", "JSONFeedback", "JSONonInbound", "JSONonOutbound", "System", "RawADCValues", "BurninProfile", "EnvHealth", "Registers", "Calibration", "Processors", "NetworkSettings"}
var sysKeysU = []string{"CPUUsage"}
var sysKeysF = []string{"CPUTemp", "ExtTemp", "CPUVoltage"}
var sysKeysI = []string{"CPUFreqCurrent", "CPUFreqMin", "CPUFreqMax", "MemTotal", "MemFree", "MemAvailable", "MemBuffers", "MemCached"}
var sysKeysB = []string{"UnderVoltageNow", "UnderVoltage", "FreqCapNow", "FreqCap", "ThrottledNow", "Throttled", "SoftTempLimitNow", "SoftTempLimit"}
var genericKeysAll = []string{"_model", "_serial", "_version", "_platform", "_bluePillReady", "_name", "_panelType", "_support", "_isSleeping", "_sleepTimer", "_panelTopology_svgbase", "_panelTopology_HWC", "_burninProfile", "_networkConfig", "_calibrationProfile", "_defaultCalibrationProfile", "_serverModeLockToIP", "_serverModeMaxClients", "_heartBeatTimer", "DimmedGain", "_connections", "_bootsCount", "_totalUptimeMin", "_sessionUptimeMin", "_screenSaverOnMin", "ErrorMsg", "Msg", "EnvironmentalHealth", "SysStat"}

func numText(r *Rng, v uint32) string {
	s := fmt.Sprint(v)
	if r.Chance(10) {
		s = strings.Repeat("0", r.Range(1, 3)) + s
	}
	return s
}

func floatText(r *Rng) string {
	f := randFloat(r)
	switch r.Intn(5) {
	case 0:
		return strconv.FormatFloat(float64(f), 'f', 1, 32)
	case 1:
		return strconv.FormatFloat(float64(f), 'f', 2, 32)
	case 2:
		return gtok(f)
	case 3:
		return fmt.Sprint(r.Intn(200) - 100)
	default:
		return strconv.FormatFloat(float64(f), 'e', 3, 32)
	}
}

func shuffle(r *Rng, xs []string) []string {
	o := append([]string{}, xs...)
	for i := len(o) - 1; i > 0; i-- {
		j := r.Intn(i + 1)
		o[i], o[j] = o[j], o[i]
	}
	return o
}

func sysStatLine(r *Rng, trailingColon bool) string {
	keys := append(append(append(append([]string{}, sysKeysU...), sysKeysF...), sysKeysI...), sysKeysB...)
	keys = shuffle(r, keys)
	k := r.Range(1, len(keys))
	if r.Chance(25) {
		k = len(keys)
	}
	keys = keys[:k]
	var sb strings.Builder
	sb.WriteString("SysStat=")
	for i, key := range keys {
		if i > 0 {
			sb.WriteString(":")
		}
		sb.WriteString(key + ":")
		switch {
		case key == "CPUUsage":
			sb.WriteString(numText(r, r.u32()))
		case strings.HasPrefix(key, "CPUT") || key == "ExtTemp" || key == "CPUVoltage":
			sb.WriteString(floatText(r))
		case strings.HasPrefix(key, "CPUFreq") || strings.HasPrefix(key, "Mem"):
			sb.WriteString(fmt.Sprint(r.i32()))
		default:
			sb.WriteString(b01(r.Bool()))
		}
	}
	if trailingColon {
		sb.WriteString(":")
	}
	return sb.String()
}

func supportLine(r *Rng) string {
	names := shuffle(r, capNames)
	k := r.Range(1, 13)
	names = names[:k]
	if r.Chance(30) { // duplicates
		names = append(names, names[r.Intn(len(names))])
		names = shuffle(r, names)
	}
	return "_support=" + strings.Join(names, ",")
}

// one well-formed line
func grammarLine(r *Rng) string { return grammarLineFam(r, r.Intn(16)) }

// one well-formed line of family k (0..15)
func grammarLineFam(r *Rng, k int) string {
	switch k {
	case 0:
		return []string{"ping", "ack", "nack", "BSY", "RDY", "list"}[r.Intn(6)]
	case 1, 2:
		id := numText(r, r.u32())
		e := ""
		if r.Bool() {
			e = "." + fmt.Sprint(edgePool[r.Intn(len(edgePool))])
		}
		return "HWC#" + id + e + "=" + []string{"Down", "Up", "Press"}[r.Intn(3)]
	case 3:
		return "HWC#" + numText(r, r.u32()) + optEdge(r) + "=" + []string{"Enc", "Speed"}[r.Intn(2)] + ":" + fmt.Sprint(r.i32())
	case 4:
		return "HWC#" + numText(r, r.u32()) + optEdge(r) + "=" + []string{"Abs", "Raw"}[r.Intn(2)] + ":" + numText(r, r.u32())
	case 5:
		return "map=" + numText(r, r.u32()) + ":" + numText(r, r.u32())
	case 6:
		k := []string{"_model", "_serial", "_version", "_platform", "_name"}[r.Intn(5)]
		for {
			v := randField(r, true)
			if v != "" {
				return k + "=" + v
			}
		}
	case 7:
		k := []string{"_sleepTimer", "_heartBeatTimer", "DimmedGain", "_serverModeMaxClients", "_bootsCount", "_totalUptimeMin", "_sessionUptimeMin", "_screenSaverOnMin", "_bluePillReady", "_isSleeping"}[r.Intn(10)]
		return k + "=" + numText(r, r.u32())
	case 8:
		if r.Bool() {
			return "_panelType=" + []string{"BPI", "Physical", "Emulation", "Touch", "Composite"}[r.Intn(5)]
		}
		return "EnvironmentalHealth=" + []string{"Normal", "Safemode", "Blocked"}[r.Intn(3)]
	case 9:
		return supportLine(r)
	case 10:
		k := []string{"_panelTopology_svgbase", "_panelTopology_HWC", "_burninProfile", "_calibrationProfile", "_defaultCalibrationProfile", "ErrorMsg", "Msg"}[r.Intn(7)]
		for {
			v := strings.ReplaceAll(randPayload(r), "\n", " ")
			if v != "" {
				return k + "=" + v
			}
		}
	case 11:
		j, _ := json.Marshal(randNet(r))
		return "_networkConfig=" + string(j)
	case 12:
		k := []string{"_serverModeLockToIP", "_connections"}[r.Intn(2)]
		n := r.Range(1, 4)
		items := []string{}
		for i := 0; i < n; i++ {
			it := randItem(r)
			if r.Chance(30) {
				it = " " + it + "\t"
			}
			items = append(items, it)
			if r.Chance(15) {
				items = append(items, []string{"", " ", "\u00a0"}[r.Intn(3)])
			}
		}
		return k + "=" + strings.Join(items, ";")
	case 13:
		return sysStatLine(r, r.Bool())
	default:
		w := []string{"Mem", "Shift", "State", "Flag#"}[r.Intn(4)]
		id := regIDs[r.Intn(len(regIDs))]
		if w == "Flag#" {
			id = []string{"", "0", "1", "7", "007", "42", "4294967295"}[r.Intn(7)]
		}
		return w + id + "=" + numText(r, r.u32())
	}
}

var nonGrammarSamples = []string{"", "pong", "PING", "Ping", "ping ", " ping", "hello", "ActivePanel=1", "HWCt#5=abc", "HWCx#3=7", "HWc#5=Down", "hwc#5=Down", "Map=1:2", "map 1:2", "_Model=x", "model=x", "_modelx=y", "_unknownKey=5", "Foo=Bar", "=x", "=", "_model", "_model=", "_support=", "SysStat=", "ErrorMsg=", "_connections=", "mem5=1", "Member", "{\"a\":1}", "[1,2]", "\t", " ", "#", "BSY ", "RDYx", "list?", "Registers?", "DimmedGains=5", "dimmedGain=5", "Msgs=hello", "éa=b"}

// `HWC#lhs=rhs` (one `=`) whose kind word (rhs up to its first `:`) is not Down|Up|Press|Enc|Abs|Speed|Raw
var unknownKindSamples = []string{"HWC#5=Foo", "HWC#5.4=Foo:3", "HWC#x=down", "HWC#5=", "HWC#5=:3", "HWC#5=Downx", "HWC#5=DownUp", "HWC#=Foo",
	"HWC#5=Encoder:3", "HWC#5=enc:3", "HWC#5= Down", "HWC#5=Down ", "HWC#5.4=Rawr:1", "HWC#99999999999=Pressed", "HWC#5=\xc3\xa9", "HWC#5=Abs :1"}

// a value event may carry an edge suffix like a binary one
func optEdge(r *Rng) string {
	if r.Chance(30) {
		return "." + fmt.Sprint(edgePool[r.Intn(len(edgePool))])
	}
	return ""
}

func nonGrammarLine(r *Rng) string {
	switch r.Intn(3) {
	case 0:
		return nonGrammarSamples[r.Intn(len(nonGrammarSamples))]
	case 1:
		// unknown key = value
		return "x" + randTxt(r, r.Range(0, 6)) + "=" + randTxt(r, r.Range(0, 6))
	default:
		return "~" + randTxt(r, r.Range(0, 12))
	}
}

// lines with a grammar keyword whose arguments do not parse (outside the domain of C04; correspondence only).
// SysStat lines here keep key/value alignment (mis-aligned scans are in the C06 stream).
var nearMissSamples = []string{
	"HWC#5x4=Down", "HWC#5=4=Down", "HWC#5é4=Up", "HWC#5\xff4=Up", "HWC#5日16=Press", "HWC#54=Down:3", "HWC#5=Enc", "HWC#5.2=Enc:4", "HWC#5=Enc:--4", "HWC#5=Enc:4-", "HWC#5=Abs:-1",
	"HWC#5=Speed:99999999999", "HWC#5=Speed:-99999999999999999999999", "HWC#99999999999=Down", "HWC#99999999999999999999=Down", "HWC#5.3=Down", "HWC#5.99999999999=Up", "HWC#=Down", "HWC#5=", "HWC#5=down",
	"HWC#5=Down ", "HWC#5.=Down", "HWC#5..4=Down", "HWC#5.4.8=Down", "HWC#5,6=Down", "HWC#5=Raw", "HWC#5=Raw:-5", "HWC#5=Raw:+5", "HWC#5=Press:1", "HWC#5=Up:0", "HWC#-5=Down", "HWC#5 =Down", "HWC#5=DownUp",
	"map=5:", "map=:5", "map=5", "map=5:6:7", "map=-1:2", "map=99999999999:1", "map=1:99999999999999999999", "map=1:2 ",
	"_panelType=Foo", "_panelType=bpi", "EnvironmentalHealth=normal", "EnvironmentalHealth=Bad", "_bluePillReady=yes", "_isSleeping=true", "_sleepTimer=abc", "_sleepTimer=-5", "_sleepTimer=99999999999", "_heartBeatTimer=1.5",
	"DimmedGain=", "_support=Foo", "_support=ASCII,Foo", "_support=ASCII,,Binary", "_support=ascii", "_support=ASCII, Binary", "_networkConfig=notjson", "_networkConfig={\"dhcp\":1}", "_networkConfig={",
	"SysStat=Foo:5", "SysStat=CPUUsage:abc", "SysStat=CPUUsage:-5", "SysStat=CPUTemp:NaN", "SysStat=CPUTemp:Inf", "SysStat=CPUTemp:1e999", "SysStat=UnderVoltage:2", "SysStat=UnderVoltage:true", "SysStat=MemFree:99999999999",
	"SysStat=CPUUsage:5:CPUUsage:6", "SysStat=CPUUsage", "SysStat=CPUUsage:5:Foo",
	"MemA=x", "Mem=", "Flag#A1=5", "Flag#=x", "Shift1=-1", "State9=99999999999", "Flag#99999999999999999999=1", "MemA=1=2", "Mema=1", "Mem A=1",
}

// random concatenations of grammar tokens: stresses the hand-written regex matchers of the model (mostly lines outside the
// domain: correspondence only).  withSys adds SysStat tokens (mis-aligned scans): only in the C06 stream.
var fuzzTokens = []string{"HWC#", "HWC", "#", "0", "5", "12", "007", "4294967296", ".", ".", "=", "=", ":", ":", "-", "Down", "Up", "Press", "Abs", "Speed", "Enc", "Raw",
	"map=", "map", "_model", "_support", "_sleepTimer", "_isSleeping", "DimmedGain", "Msg", "ErrorMsg", "Mem", "Flag#", "Shift", "State", "A", "Z9", "a", ",", ";", "ASCII", "Binary", "1", " ", "\t", "é", "\xff", "\xc2", "ping", "list"}
var fuzzSysTokens = []string{"SysStat", "SysStat=", "CPUUsage", "CPUTemp", "MemFree", "Throttled", "1.5", "-3", "1e3"}

func fuzzLine(r *Rng, withSys bool) string {
	var sb strings.Builder
	k := r.Range(1, 9)
	for i := 0; i < k; i++ {
		if withSys && r.Chance(30) {
			sb.WriteString(fuzzSysTokens[r.Intn(len(fuzzSysTokens))])
		} else {
			sb.WriteString(fuzzTokens[r.Intn(len(fuzzTokens))])
		}
	}
	return sb.String()
}

// ---------------------------------------------------------------------------------------------
// the hand-written byte matchers of the decoder model against the library's real regular expressions
// ---------------------------------------------------------------------------------------------

func emitMatchOut(rx string, line string) { emitS("dout.match", []string{rx, hs(line)}) }

// every sequence of at most maxLen tokens after the prefix
func enumTokens(rx, prefix string, toks []string, maxLen int) {
	var rec func(cur string, depth int)
	rec = func(cur string, depth int) {
		emitMatchOut(rx, cur)
		if depth == maxLen {
			return
		}
		for _, t := range toks {
			rec(cur+t, depth+1)
		}
	}
	rec(prefix, 0)
}

func editsOf(l string, alpha []string) []string {
	out := []string{}
	for i := 0; i < len(l); i++ {
		out = append(out, l[:i]+l[i+1:]) // delete
		for _, a := range alpha {
			out = append(out, l[:i]+a+l[i+1:]) // replace
		}
	}
	for i := 0; i <= len(l); i++ {
		for _, a := range alpha {
			out = append(out, l[:i]+a+l[i:]) // insert
		}
	}
	return out
}

// all single edits of every valid line; double edits: all of them over the reduced alphabet (thorough), a sample (quick)
func enumEdits(r *Rng, rx string, valid []string, alpha, reduced []string, thorough bool, sample int) {
	for _, l := range valid {
		emitMatchOut(rx, l)
		singles := editsOf(l, alpha)
		for _, e := range singles {
			emitMatchOut(rx, e)
		}
		if thorough {
			for _, e := range editsOf(l, reduced) {
				for _, e2 := range editsOf(e, reduced) {
					emitMatchOut(rx, e2)
				}
			}
		} else {
			for i := 0; i < sample; i++ {
				e := singles[r.Intn(len(singles))]
				e2 := editsOf(e, alpha)
				emitMatchOut(rx, e2[r.Intn(len(e2))])
			}
		}
	}
}

var outRegexNames = []string{"regex_cmd_inbound", "regex_map", "regex_genericSingle_inbound", "regex_registersOut"}

func genMatchOut(r *Rng, tier string) {
	thorough := tier == "thorough"
	for _, n := range outRegexNames {
		emitS("dout.rx", []string{n})
	}
	depth := func(q, t int) int {
		if thorough {
			return t
		}
		return q
	}
	// regex_cmd_inbound = ^HWC#([0-9]+)(|.([0-9]+))=(Down|Up|Press|Abs|Speed|Enc|Raw)(|:([-0-9]+))$
	cmdBytes := []string{"0", "5", ".", "=", ":", "-", "D", "x", " ", "\n", "\xc3", "\xa9", "\xff"}
	for _, p := range []string{"HWC#", "HWC#5", "HWC#5=", "HWC#5=Down", "HWC#5=Enc", "HWC#5=Enc:", "HWC#5=Enc:-", "HWC#5.4", "HWC#5.4=", "HWC#5\xc3\xa9", "HWC#5\xc3"} {
		enumTokens("regex_cmd_inbound", p, cmdBytes, depth(3, 4))
	}
	cmdToks := []string{"0", "12", ".", "=", ":", "-", "Down", "Up", "Press", "Abs", "Speed", "Enc", "Raw", "x", "\n", "\xc3\xa9", "\xe2\x82\xac", "\xf0\x9f\x98\x80", "\xed\xa0\x80"}
	enumTokens("regex_cmd_inbound", "HWC#", cmdToks, depth(3, 4))
	enumTokens("regex_cmd_inbound", "HWC#7", cmdToks, depth(3, 4))
	enumEdits(r, "regex_cmd_inbound", []string{"HWC#5=Down", "HWC#12.16=Press", "HWC#7=Enc:-3", "HWC#7.4=Raw:25", "HWC#5=Up", "HWC#1=Speed:0", "HWC#9=Abs:10"},
		[]string{"0", "5", ".", "=", ":", "-", "D", "p", " ", "\n", "\xc3", "\xa9"}, []string{"5", ".", "=", ":", "\n"}, thorough, 300)
	// regex_map = ^map=([0-9]+):([0-9]+)$
	mapBytes := []string{"0", "5", ":", "=", "-", " ", "\n", "x", "\xc3", ","}
	for _, p := range []string{"map=", "map=5", "map=5:", "map", "ma"} {
		enumTokens("regex_map", p, mapBytes, depth(4, 5))
	}
	enumEdits(r, "regex_map", []string{"map=1:2", "map=007:4294967295"}, []string{"0", ":", "=", "-", " ", "\n", "x", "m"}, []string{"0", ":", "=", "\n"}, thorough, 300)
	// regex_genericSingle_inbound = ^(key1|…|key29)=(.+)$
	valBytes := []string{"a", " ", "=", "\n", "\r", "\xff", "\xc3\xa9", "1", ":"}
	for _, k := range genericKeysAll {
		enumTokens("regex_genericSingle_inbound", k+"=", valBytes, depth(2, 3))
		enumTokens("regex_genericSingle_inbound", k, valBytes, 2)
		for _, e := range editsOf(k+"=v", []string{"_", "s", "=", "\n", "M"}) {
			emitMatchOut("regex_genericSingle_inbound", e)
		}
		for _, k2 := range genericKeysAll { // one key glued to another (prefix-sharing alternatives, leftmost-first)
			emitMatchOut("regex_genericSingle_inbound", k+k2+"=v")
			emitMatchOut("regex_genericSingle_inbound", k+"="+k2+"=v")
		}
	}
	// regex_registersOut = ^(Flag#|Mem|Shift|State)([A-Z0-9]*)=([0-9]+)$
	regBytes := []string{"A", "Z", "0", "9", "a", "=", "#", " ", "\n", "-", "\xc3", "@", "["}
	for _, p := range []string{"Flag#", "Mem", "Shift", "State", "Flag", "MemA=", "State9=1", "Shift=", "Fla", "Memory"} {
		enumTokens("regex_registersOut", p, regBytes, depth(3, 4))
	}
	enumEdits(r, "regex_registersOut", []string{"Flag#7=1", "MemA1=25", "ShiftZ=0", "State=4294967295", "Flag#=0"},
		[]string{"A", "0", "a", "=", "#", " ", "\n", "-", "F", "S"}, []string{"A", "0", "=", "#", "\n"}, thorough, 300)
}

// ---------------------------------------------------------------------------------------------
// C04 scenario classes
// ---------------------------------------------------------------------------------------------

var betweenLinesOut = [][]string{{"ping"}, {"list"}, {""}, {"Foo=Bar"}, {"MemA=1"}, {"map=5:1"}, {"_isSleeping=1"}, {"HWC#9=Down"}, {"pong", "BSY"}, {"Msg=hello"}}

// (b) the same line more than once in one call, other lines in between
func repeatScenariosDout(r *Rng, perFam int) {
	for fam := 0; fam < 16; fam++ {
		for rep := 0; rep < perFam; rep++ {
			a, b := grammarLineFam(r, fam), grammarLineFam(r, fam)
			x := betweenLinesOut[r.Intn(len(betweenLinesOut))]
			y := betweenLinesOut[r.Intn(len(betweenLinesOut))]
			outEmitLines(cat([]string{a}, x, []string{a})...)
			outEmitLines(a, a)
			outEmitLines(a, b, a)
			outEmitLines(cat([]string{a}, x, []string{a}, y, []string{a})...)
		}
	}
	for _, l := range nonGrammarSamples {
		outEmitLines(l, "HWC#1=Down", l)
	}
}

// (c) every numeric position of every line family (canonical values chosen so that a base-prefix / octal reading shows)
var doutNumTempls = []numTempl{
	nt("HWC#", "8", "=Down"), nt("HWC#", "10", ".", "4", "=Up"), nt("HWC#", "9", ".", "16", "=Press"), nt("HWC#", "18", ".", "8", "=Down"),
	nt("HWC#", "8", "=Enc:", "10", ""), nt("HWC#", "10", "=Enc:", "-8", ""), nt("HWC#", "8", ".", "2", "=Speed:", "-10", ""), nt("HWC#", "9", "=Speed:", "255", ""),
	nt("HWC#", "10", "=Abs:", "10", ""), nt("HWC#", "8", ".", "1", "=Abs:", "0", ""), nt("HWC#", "8", "=Raw:", "18", ""), nt("HWC#", "0", "=Raw:", "0", ""),
	nt("map=", "8", ":", "10", ""), nt("map=", "10", ":", "0", ""),
	nt("_sleepTimer=", "10", ""), nt("_heartBeatTimer=", "8", ""), nt("DimmedGain=", "10", ""), nt("_serverModeMaxClients=", "10", ""), nt("_bootsCount=", "8", ""),
	nt("_totalUptimeMin=", "100", ""), nt("_sessionUptimeMin=", "10", ""), nt("_screenSaverOnMin=", "9", ""), nt("_bluePillReady=", "1", ""), nt("_bluePillReady=", "10", ""),
	nt("_isSleeping=", "8", ""), nt("_isSleeping=", "0", ""),
	nt("SysStat=CPUUsage:", "10", ":CPUFreqCurrent:", "-10", ":MemFree:", "8", ":CPUFreqMin:", "0", ":Throttled:1"),
	nt("SysStat=MemTotal:", "100", ":MemAvailable:", "10", ":MemBuffers:", "18", ":MemCached:", "-8", ":CPUFreqMax:", "10", ""),
	nt("MemA1=", "10", ""), nt("Mem=", "8", ""), nt("Flag#", "10", "=", "1", ""), nt("Flag#", "8", "=", "0", ""), nt("Flag#", "0", "=", "10", ""), nt("ShiftB=", "255", ""), nt("State=", "10", ""),
}

// `[-0-9]+` (the value of Enc/Abs/Speed/Raw) admits '-' anywhere; the SysStat values are free-form text read by Atoi
func doutSigns(t numTempl) numTempl {
	t.plus = make([]bool, len(t.nums))
	t.minus = make([]bool, len(t.nums))
	for i := range t.nums {
		if strings.HasSuffix(t.parts[i], ":") {
			t.minus[i] = true
			if strings.HasPrefix(t.parts[0], "SysStat") {
				t.plus[i] = true
			}
		}
	}
	return t
}

func numeralScenariosDout(r *Rng, randomN int) {
	for _, t0 := range doutNumTempls {
		t := doutSigns(t0)
		outEmitLines(t.render(t.nums))
		for _, l := range t.respelled() {
			outEmitLines(l)
		}
	}
	for _, l := range []string{"_sleepTimer=00000000000000000000004294967296", "HWC#7=Abs:000000000000000000000099999999999999999999", "map=0000000000000000000000000000000000000000000000000000000000000000000000000007:08",
		"HWC#0000000000000000000000000000000000000000000012=Down", "Flag#000000000000000000000000000000000000000000000000000000000000017=0000000000000000000000000000000001",
		"HWC#5=Enc:-0000000000000000000000000000000000000000008", "SysStat=MemFree:-000000000000000000000000000000010"} {
		outEmitLines(l)
	}
	for i := 0; i < randomN; i++ {
		k := r.Range(1, 4)
		var ls []string
		for j := 0; j < k; j++ {
			t := doutSigns(doutNumTempls[r.Intn(len(doutNumTempls))])
			if r.Chance(70) {
				sp := t.respelled()
				ls = append(ls, sp[r.Intn(len(sp))])
			} else {
				ls = append(ls, t.respelledAll(r))
			}
			if r.Chance(30) {
				ls = append(ls, grammarLine(r))
			}
		}
		outEmitLines(ls...)
	}
}

// (g) a known key with a value outside its enumeration / a keyword with arguments that do not parse, alone and inside
// batches directly after lines that produce a message (dout.ctx: the decoder's answer for every line alone is part of the
// record; the batch must be the concatenation: no line may change what its neighbours denote)
var doutEnumOutside = []string{"_panelType=Foo", "_panelType=bpi", "_panelType=BPI ", "_panelType=0", "_panelType=Physical,Touch", "EnvironmentalHealth=Weird", "EnvironmentalHealth=normal", "EnvironmentalHealth=0",
	"EnvironmentalHealth=Blocked!", "_support=Foo", "_support=ASCII,Foo", "_support=ascii", "_support=,", "SysStat=Foo:5", "SysStat=Foo", "SysStat=UnderVoltage:2", "SysStat=Throttled:yes",
	"_networkConfig=notjson", "_networkConfig={", "_bluePillReady=yes", "_isSleeping=true", "_sleepTimer=abc", "HWC#5=Enc", "HWC#5=Abs:-1", "HWC#5.3=Down", "HWC#5=Press:1", "map=5:", "MemA=x", "Flag#A1=5"}

func enumScenariosDout(r *Rng, randomN int) {
	producers := []string{"HWC#7=Down", "HWC#3=Enc:-2", "ping", "MemA=4", "map=5:1", "_model=SK_X", "_panelType=Touch", "EnvironmentalHealth=Safemode", "SysStat=CPUUsage:5", "_support=ASCII,Binary",
		"HWC#7=Press", "Msg=hello", "_isSleeping=1", "list"}
	for _, e := range doutEnumOutside {
		outEmitLinesAs("dout.ctx", e)
		for _, p := range producers {
			outEmitLinesAs("dout.ctx", p, e)
		}
		outEmitLinesAs("dout.ctx", "HWC#7=Down", e, "HWC#7=Up")
		outEmitLinesAs("dout.ctx", e, e, "HWC#9=Abs:100", e)
	}
	for i := 0; i < randomN; i++ {
		var ls []string
		k := r.Range(2, 6)
		for j := 0; j < k; j++ {
			switch {
			case r.Chance(40):
				ls = append(ls, doutEnumOutside[r.Intn(len(doutEnumOutside))])
			case r.Chance(15):
				ls = append(ls, nearMissSamples[r.Intn(len(nearMissSamples))])
			case r.Chance(10):
				ls = append(ls, nonGrammarLine(r))
			default:
				ls = append(ls, grammarLine(r))
			}
		}
		outEmitLinesAs("dout.ctx", ls...)
	}
}

// (a) what an earlier call returned is not changed by a later call
func seqScenariosDout(r *Rng, randomN int) {
	outEmitBatches([]string{"HWC#1=Down", "HWC#2=Down", "HWC#3=Down"}, []string{"HWC#101=Up", "HWC#102=Up", "HWC#103=Up"}, []string{"HWC#40=Press"})
	outEmitBatches([]string{"SysStat=CPUUsage:4:CPUTemp:56.0"}, []string{"SysStat=CPUUsage:97:CPUTemp:81.5"})
	for i := 0; i < randomN; i++ {
		k := r.Range(2, 4)
		batches := make([][]string, k)
		for b := range batches {
			for j := r.Range(1, 4); j > 0; j-- {
				batches[b] = append(batches[b], grammarLine(r))
			}
		}
		if r.Chance(30) {
			batches = append(batches, batches[0])
		}
		if i%4 == 3 {
			outEmitBatchesAs("dout.par", batches...)
		} else {
			outEmitBatches(batches...)
		}
	}
}

// (f) lines longer than the debug dump's patience
func longScenariosDout() {
	for _, n := range []int{201, 300, 499, 500, 501, 700, 2000, 6000} {
		txt := strings.Repeat("abcdefghi ", n/10+1)[:n-1] + "z"
		outEmitLines("_panelTopology_svgbase=<svg>" + txt + "</svg>")
		outEmitLines("HWC#1=Down", "_panelTopology_HWC={\"t\":\""+txt+"\"}", "Msg="+txt, "HWC#1=Up")
		outEmitLines("_name="+txt, "_connections="+txt[:n/2]+";"+txt[n/2:])
		outEmitLines("unknownKeyword"+txt, "HWC#1=Down")
		outEmitLines("Mem" + strings.ToUpper(strings.ReplaceAll(txt, " ", "9")) + "=5")
	}
}

func genC04(r *Rng, n int, tier string) {
	// the byte matchers of the model against the real regular expressions (bounded-exhaustive)
	genMatchOut(r, tier)
	// every flow word, every event kind with and without edge, boundary values
	for _, w := range []string{"ping", "ack", "nack", "BSY", "RDY", "list"} {
		outEmitLines(w)
	}
	for _, id := range []string{"0", "1", "5", "05", "255", "4294967295"} {
		for _, k := range []string{"Down", "Up", "Press"} {
			outEmitLines("HWC#" + id + "=" + k)
			for _, e := range edgePool {
				outEmitLines(fmt.Sprintf("HWC#%s.%d=%s", id, e, k))
			}
		}
		for _, v := range i32Pool {
			outEmitLines(fmt.Sprintf("HWC#%s=Enc:%d", id, v), fmt.Sprintf("HWC#%s=Speed:%d", id, v))
		}
		for _, v := range u32Pool {
			outEmitLines(fmt.Sprintf("HWC#%s=Abs:%d", id, v), fmt.Sprintf("HWC#%s=Raw:%d", id, v))
		}
		// value events with an edge suffix (in the grammar: the suffix carries no information)
		for _, e := range edgePool {
			outEmitLines(fmt.Sprintf("HWC#%s.%d=Enc:-3", id, e), fmt.Sprintf("HWC#%s.%d=Speed:2147483647", id, e),
				fmt.Sprintf("HWC#%s.%d=Abs:4294967295", id, e), fmt.Sprintf("HWC#%s.%d=Raw:7", id, e))
		}
	}
	outEmitLines("HWC#5=Raw:123")
	// HWC# lines whose kind word is not one of the seven (non-grammar: must be silent)
	for _, l := range unknownKindSamples {
		outEmitLines(l)
		outEmitLines("HWC#1=Down", l, "HWC#2.4=Enc:5", l)
	}
	// every key of the key=value family with a plain value
	for _, k := range genericKeysAll {
		outEmitLines(k + "=1")
		outEmitLines(k + "=abc def")
	}
	for _, v := range u32Pool {
		outEmitLines(fmt.Sprintf("map=%d:%d", v, 4294967295-v))
		for _, k := range []string{"_sleepTimer", "_heartBeatTimer", "DimmedGain", "_serverModeMaxClients", "_bootsCount", "_totalUptimeMin", "_sessionUptimeMin", "_screenSaverOnMin", "_bluePillReady", "_isSleeping"} {
			outEmitLines(fmt.Sprintf("%s=%d", k, v))
		}
		for _, w := range []string{"MemA", "ShiftB2", "StateC", "Flag#7", "Flag#", "Mem"} {
			outEmitLines(fmt.Sprintf("%s=%d", w, v))
		}
	}
	// capability lists: every single name, the full list in the encoder's order and reversed
	for _, c := range capNames {
		outEmitLines("_support=" + c)
	}
	outEmitLines("_support=" + strings.Join(capNames, ","))
	rev := append([]string{}, capNames...)
	for i, j := 0, len(rev)-1; i < j; i, j = i+1, j-1 {
		rev[i], rev[j] = rev[j], rev[i]
	}
	outEmitLines("_support=" + strings.Join(rev, ","))
	// SysStat: every key alone
	for _, k := range sysKeysU {
		outEmitLines("SysStat=" + k + ":55")
	}
	for _, k := range sysKeysF {
		for _, f := range floatPool {
			outEmitLines("SysStat=" + k + ":" + strconv.FormatFloat(float64(f), 'f', 2, 32))
		}
	}
	for _, k := range sysKeysI {
		outEmitLines("SysStat="+k+":-2147483648", "SysStat="+k+":2147483647:")
	}
	for _, k := range sysKeysB {
		outEmitLines("SysStat="+k+":1", "SysStat="+k+":0")
	}
	// non-grammar lines, near-miss lines (one per record)
	for _, l := range nonGrammarSamples {
		outEmitLines(l)
	}
	for _, l := range nearMissSamples {
		outEmitLines(l)
	}
	for i := 0; i < n; i++ {
		switch r.Intn(6) {
		case 5:
			outEmitLines(fuzzLine(r, false))
		case 0, 1:
			outEmitLines(grammarLine(r))
		case 2, 3:
			// a sequence of well-formed lines with non-grammar lines interleaved
			k := r.Range(2, 8)
			ls := []string{}
			for j := 0; j < k; j++ {
				if r.Chance(30) {
					ls = append(ls, nonGrammarLine(r))
				} else {
					ls = append(ls, grammarLine(r))
				}
			}
			outEmitLines(ls...)
		case 4:
			outEmitLines(nonGrammarLine(r))
		}
	}
	// scenario classes (after the random stream, so that the records above keep their seeds)
	scale := 1
	if tier == "thorough" {
		scale = 10
	}
	repeatScenariosDout(r, 8*scale)
	numeralScenariosDout(r, 300*scale)
	enumScenariosDout(r, 300*scale)
	seqScenariosDout(r, 150*scale)
	longScenariosDout()
	jsonGluedScenariosDout(r, 60*scale)
}

// the JSON-carrying line of the outbound decoder (`_networkConfig=`): a complete valid JSON object followed / preceded
// by something (stray bracket, comma, second value glued on, another line run together with it, blanks, BOM); the
// oracle entry (encoding/json.Unmarshal) says what the unchanged code yields
func jsonGluedScenariosDout(r *Rng, randomN int) {
	fixed := []string{"{\"address\":\"10.0.0.9\",\"dhcp\":true}", "{}", "{\"netmask\":\"255.255.255.0\",\"gateway\":\"10.0.0.1\"}"}
	for _, v := range fixed {
		for _, t := range jsonTrailers {
			outEmitLines("_networkConfig=" + v + t)
			outEmitLines("HWC#1=Down", "_networkConfig="+v+t, "HWC#1=Up")
		}
		for _, l := range jsonLeaders {
			outEmitLines("_networkConfig=" + l + v)
		}
		for _, w := range fixed {
			outEmitLines("_networkConfig=" + v + w)
		}
	}
	for i := 0; i < randomN; i++ {
		j, _ := json.Marshal(randNet(r))
		l := "_networkConfig=" + string(j)
		switch r.Intn(3) {
		case 0:
			l += jsonTrailers[r.Intn(len(jsonTrailers))]
		case 1:
			j2, _ := json.Marshal(randNet(r))
			l += string(j2)
		case 2:
			l += nonGrammarLine(r)
		}
		outEmitLines(l)
	}
}

// ---------------------------------------------------------------------------------------------
// C06 (outbound half): hostile inputs; only totality matters for the property, the model is still compared
// ---------------------------------------------------------------------------------------------

func mutateLine(r *Rng, l string) string {
	b := []byte(l)
	if len(b) == 0 {
		return string(r.Bytes(r.Range(0, 4)))
	}
	switch r.Intn(8) {
	case 0:
		return string(b[:r.Intn(len(b))])
	case 1:
		i := r.Intn(len(b))
		b[i] = byte(r.U64())
	case 2:
		i := r.Intn(len(b) + 1)
		b = append(b[:i], append([]byte{[]byte("\n\r=:;,.#-\x00\xff\xc2")[r.Intn(12)]}, b[i:]...)...)
	case 3:
		i := r.Intn(len(b))
		b = append(b[:i], b[i+1:]...)
	case 4:
		return l + l
	case 5:
		return strings.Replace(l, "=", []string{"==", " = ", ":", ""}[r.Intn(4)], 1)
	case 6:
		return l + strings.Repeat("9", r.Range(1, 30))
	case 7:
		return strings.Replace(l, ":", []string{"::", ":CPUUsage:", ":x:", ""}[r.Intn(4)], 1)
	}
	return string(b)
}

var hostileLines = []string{
	"SysStat=x:CPUUsage:5", "SysStat=CPUUsage:CPUTemp:5", "SysStat=:CPUUsage:5:", "SysStat=CPUTemp:CPUTemp:CPUTemp", "SysStat=:", "SysStat=::::", "SysStat=5:CPUUsage", "SysStat=CPUUsage:1:2:CPUTemp:3",
	"_model=a\nb", "HWC#5=Down\n", "\nHWC#5=Down", "ping\n", "_support=ASCII\n,Binary", "\n", "\r\n", "HWC#5=Down\r", "\x00", "HWC#\x00=Down", strings.Repeat("9", 400), "HWC#" + strings.Repeat("1", 300) + "=Down",
	"HWC#1=Enc:" + strings.Repeat("-", 200), "map=" + strings.Repeat("0", 500) + ":1", "{\"FlowMessage\":1}", "[null]", "[{}]", "_networkConfig=[null]", "_networkConfig=null", "_networkConfig={\"address\":\"\\ud800\"}", "_networkConfig={\"dhcp\":\"x\"}",
	"Flag#" + strings.Repeat("9", 100) + "=1", "Mem" + strings.Repeat("Z", 1000) + "=0", "_serverModeLockToIP=;;;", "_connections= ; ;\t", "_connections=\xc2\xa0;\xe2\x80\x83a\xe2\x80\x83", "HWC#5\xc2=Down", "HWC#5\xe2\x82=Down", "HWC#5\xf0\x9f\x98\x804=Down", "HWC#5\xed\xa0\x804=Down", "HWC#5\xc0\x804=Down", "HWC#5\xf4\x90\x80\x804=Down",
}

func genC06out(r *Rng, n int, tier string) {
	for _, l := range hostileLines {
		outEmitLines(l)
	}
	for _, l := range nearMissSamples {
		outEmitLines(l)
	}
	// hostile messages: NaN / Inf floats, LF and arbitrary bytes in every string field, enums and integers anywhere
	for _, f := range []float32{float32(math.NaN()), float32(math.Inf(1)), float32(math.Inf(-1)), float32(math.Copysign(0, -1))} {
		outEmitMsgs("d", &rwp.OutboundMessage{SysStat: &rwp.SystemStat{CPUTemp: f, ExtTemp: f, CPUVoltage: f}})
		outEmitMsgs("c", &rwp.OutboundMessage{SysStat: &rwp.SystemStat{CPUTemp: f, ExtTemp: f, CPUVoltage: f}})
	}
	outEmitMsgs("d")
	outEmitMsgs("d", &rwp.OutboundMessage{}, &rwp.OutboundMessage{})
	outEmitMsgs("d", &rwp.OutboundMessage{Events: []*rwp.HWCEvent{{}}, Registers: []*rwp.Register{{}}, PanelInfo: &rwp.PanelInfo{RawPanelSupport: &rwp.RawPanelSupport{}}, PanelTopology: &rwp.PanelTopology{}, Connections: &rwp.Connections{}, RunTimeStats: &rwp.RunTimeStats{}, SysStat: &rwp.SystemStat{}, NetworkConfig: &rwp.NetworkConfig{}, EnvironmentalHealth: &rwp.Environment{}, HWCavailability: map[uint32]uint32{}})
	hostile := func() string {
		switch r.Intn(5) {
		case 0:
			return string(r.Bytes(r.Range(0, 12)))
		case 1:
			return "a\nb"
		case 2:
			return "\n"
		case 3:
			return randTxt(r, r.Range(0, 10)) + "\r\n" + randTxt(r, r.Range(0, 10))
		default:
			return randField(r, true)
		}
	}
	for i := 0; i < n; i++ {
		switch r.Intn(6) {
		case 0, 1:
			// malformed line stream
			k := r.Range(1, 6)
			ls := []string{}
			for j := 0; j < k; j++ {
				switch r.Intn(6) {
				case 5:
					ls = append(ls, fuzzLine(r, true))
				case 0:
					ls = append(ls, string(r.Bytes(r.Range(0, 24))))
				case 1:
					ls = append(ls, hostileLines[r.Intn(len(hostileLines))])
				case 2:
					ls = append(ls, mutateLine(r, nearMissSamples[r.Intn(len(nearMissSamples))]))
				default:
					ls = append(ls, mutateLine(r, grammarLine(r)))
				}
			}
			outEmitLines(ls...)
		case 2:
			m := randOutMsg(r, 50, false, true)
			if m.PanelInfo != nil {
				m.PanelInfo.Model, m.PanelInfo.Name = hostile(), hostile()
				m.PanelInfo.LockedToIPs = []string{hostile(), "", hostile()}
			}
			if m.Connections != nil {
				m.Connections.Connection = []string{hostile(), ";", ""}
			}
			if m.SysStat != nil {
				m.SysStat.CPUTemp = math.Float32frombits(uint32(r.U64()))
				m.SysStat.CPUVoltage = math.Float32frombits(uint32(r.U64()))
			}
			for _, reg := range m.Registers {
				reg.Id = hostile()
			}
			if m.NetworkConfig != nil {
				m.NetworkConfig.Address = hostile()
			}
			outEmitMsgs("d", m)
		case 3, 4:
			// proto.Unmarshal of mutated wire bytes of a random message / of random bytes
			var b []byte
			if r.Bool() {
				b, _ = proto.MarshalOptions{Deterministic: true}.Marshal(randOutMsg(r, 60, false, false))
				k := r.Range(1, 4)
				for j := 0; j < k && len(b) > 0; j++ {
					switch r.Intn(3) {
					case 0:
						b[r.Intn(len(b))] = byte(r.U64())
					case 1:
						b = b[:r.Intn(len(b)+1)]
					case 2:
						p := r.Intn(len(b) + 1)
						b = append(b[:p], append(r.Bytes(r.Range(1, 3)), b[p:]...)...)
					}
				}
			} else {
				b = r.Bytes(r.Range(0, 40))
			}
			msg := &rwp.OutboundMessage{}
			if proto.Unmarshal(b, msg) == nil || r.Chance(50) { // a failed Unmarshal leaves a partially filled message: also a reachable value
				ok := true
				for _, e := range msg.Events {
					ok = ok && e != nil
				}
				for _, e := range msg.Registers {
					ok = ok && e != nil
				}
				if ok {
					outEmitMsgs("d", msg)
				}
			}
		case 5:
			k := r.Range(2, 5)
			ms := []*rwp.OutboundMessage{}
			for j := 0; j < k; j++ {
				ms = append(ms, randOutMsg(r, 30, false, true))
			}
			outEmitMsgs("d", ms...)
		}
	}
	// call sequences on hostile inputs: results kept across calls, two goroutines, objects reused (no panic, no hang,
	// the same results as one call after another)
	for i := 0; i < n/60+4; i++ {
		lists := make([][]*rwp.OutboundMessage, r.Range(2, 4))
		for j := range lists {
			for q := r.Range(1, 3); q > 0; q-- {
				lists[j] = append(lists[j], randOutMsg(r, r.Pick(10, 40, 100), false, true))
			}
		}
		switch i % 3 {
		case 0:
			outEmitLists("eout.par", lists...)
		case 1:
			outEmitLists("eout.seq", lists...)
		default:
			outEmitLists("eout.reuse", lists[0], lists[1])
		}
		batches := make([][]string, r.Range(2, 4))
		for b := range batches {
			for j := r.Range(1, 3); j > 0; j-- {
				switch r.Intn(3) {
				case 0:
					batches[b] = append(batches[b], hostileLines[r.Intn(len(hostileLines))])
				case 1:
					batches[b] = append(batches[b], mutateLine(r, grammarLine(r)))
				default:
					batches[b] = append(batches[b], grammarLine(r))
				}
			}
		}
		outEmitBatches(batches...)
	}
}
