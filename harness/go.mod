module vharness

go 1.19

require github.com/SKAARHOJ/rawpanel-lib v0.0.0

require github.com/SKAARHOJ/ibeam-lib-utils v1.0.0 // indirect

replace github.com/SKAARHOJ/rawpanel-lib => /repo
