package main

// C19 — the high-level client gorwp: dispatch each event once, stay live, track panel state.
// One record = one script:   gorwp.run k=v …  |  canonical observation on one line
//
//   mode   bin | asc
//   init   full | nomodel | noserial | nojson | nosvg | noname | late   (what the panel answers to the initial request;
//          late = everything at once except the SVG which comes 2.5 s after the request)
//          close0 (the panel closes the connection when it has seen the initial request, nothing sent) |
//          close2 (sends the identity message — model, serial, name — waits 100 ms, closes) |
//          overlimit (identity message, 100 ms, then a frame header 500000 and nothing more; connection stays open; binary only) |
//          stall (identity message, then a frame of which 3 bytes never come / a line without its line feed, then silence) |
//          fullclose (the complete answer in one write, then the panel closes at once: either result of Connect is accepted)
//   bind   comma list of bindings: t<id> trigger, b<id> binary, p<id> pulsed, a<id> absolute, i<id> intensity ("-" = none)
//   fb     1 = every handler sends feedback with SetLEDColor (into toPanel — which the pinned code drained in the same loop that
//          dispatches; now a writer goroutine of its own does);
//          2 = every handler starts `fbn` (default 40) goroutines that each send one large state (`fbsz` bytes of graphics,
//          default 1 MiB) with SendRawState: feedback that backs up behind a panel which is not reading (binary only)
//   race   1 = a second goroutine keeps re-registering the same handlers while the history is sent (child process);
//          2 = the same in a race-instrumented child (built on demand; `skip:norace` if that is not possible)
//   seg    0 = one write per message, 1 = one byte per write, r<seed> = random cuts
//   pa     1 = the scripted panel answers every heartbeat ping of the client (one per second, rawpanel.go listen) with an
//          acknowledge, as a real panel does; 0 (default) = it never does, so that a pause `w<ms>` of the script is a real
//          silence on the socket (quiet periods longer than the reader's 2 s payload deadline: class (12) of the generator)
//   hist   items separated by `;` (sent after the handlers are bound):
//          eb<id>.<pressed>.<edge> | ep<id>.<v> | ea<id>.<v> | es<id>.<v> | en<id> (event without component)
//          ex<id>.<pressed>.<edge>.<v> (binary + pulsed in one event) | g (ping) | i<model>.<serial>.<name> (hex, - empty)
//          t<jsonhex>.<svghex>.<nHWc> | m<k>:<v>,… | xo<len> (header only, len ≥ limit) | xt<n> (header n, n-3 bytes, 2.5 s stall)
//          B<n>.<id> (n binary press events) | w<ms> | P (the panel stops reading its socket) | R (… reads again)
//          A (a message whose flow field is ACK and nothing else) | A<item> (the message of <item> with the flow field ACK)
//          K<kind><id> (the user registers a handler at this point: the script calls Bind* and goes on when it has returned;
//          kind as in `bind`; put a pause before it so that what was sent earlier has been dispatched)
//
// Output: init=ok|err  inv=<tok,tok…>  acks=<n>  pings=<n>  fb=<n>  model= serial= name=  tj= sv= tn= tg= tf= av=  isinit= tconn= tlast= closed= cut=
//   closed = 1: the panel saw the client end the connection while the script was still running
//   cut = why the harness stopped listening (see the stopping rule in gwRun): count | closed | quiet | deadline
//   init = whether Connect returned an error; isinit = what IsInitialized() says afterwards
//   tg = digest of json.Marshal(GetTopology()), tf = digest of json.Marshal of a FRESH unmarshal of the stored topology JSON (tj)
//   invocation tokens: t<id>.<component summary> b<id>.<status>.<edge> p<id>.<v> a<id>.<v> i<id>.<v>

import (
	"bufio"
	"bytes"
	"context"
	"crypto/sha256"
	"encoding/json"
	"encoding/hex"
	"fmt"
	"image/color"
	"net"
	"os"
	"os/exec"
	"path/filepath"
	"reflect"
	"sort"
	"strconv"
	"strings"
	"sync"
	"sync/atomic"
	"time"

	helpers "github.com/SKAARHOJ/rawpanel-lib"
	"github.com/SKAARHOJ/rawpanel-lib/gorwp"
	"github.com/SKAARHOJ/rawpanel-lib/topology"
	rwp "github.com/SKAARHOJ/rawpanel-lib/ibeam_rawpanel"
	"google.golang.org/protobuf/proto"
)

type gorwpExec struct{}

func init() {
	// (the library's logger is redirected to stderr in logsetup.go)
	registerExecutor("gorwp", &gorwpExec{})
	registerFamily("c19", genC19)
}

func (gorwpExec) Exec(cmd string, args []string) string {
	if cmd != "gorwp.run" {
		return "err:unknown-record"
	}
	a := nlKV(args)
	if os.Getenv("GW_CHILD") == "" {
		// a panic in a goroutine of the library (or a detected concurrent map access) kills the process:
		// every record executes in a child process (generators use one child for a whole batch, see gwRunIsolated)
		return gwRunChild(args, nlInt(a, "race", 0) == 2)
	}
	if nlInt(a, "race", 0) == 2 && os.Getenv("GW_RACEBIN") == "" {
		// inside a batch child: the race-instrumented run needs its own (instrumented) process
		return gwRunChild(args, true)
	}
	var res string
	p := guarded(func() { res = gwRun(a) })
	if p != "" {
		return p
	}
	return res
}

// ---- child process for the registration race (a detected concurrent map access kills the process) ----

var gwRaceBuild sync.Once
var gwRaceBin string

func gwRunChild(args []string, instrumented bool) string {
	exe, err := os.Executable()
	if err != nil {
		return "skip:noexe"
	}
	bin := exe
	if instrumented {
		gwRaceBuild.Do(func() {
			src := filepath.Join(filepath.Dir(exe), "..", "harness")
			out := filepath.Join(filepath.Dir(exe), "harness-race")
			if _, err := os.Stat(out); err == nil { // built by the orchestrator for this run
				gwRaceBin = out
				return
			}
			c := exec.Command("go", "build", "-race", "-tags", "verif", "-o", out, ".")
			c.Dir = src
			c.Env = append(os.Environ(), "CGO_ENABLED=1", "GOFLAGS=-mod=mod", "GOPROXY=off", "GOSUMDB=off", "GOTOOLCHAIN=local")
			if err := c.Run(); err == nil {
				gwRaceBin = out
			}
		})
		if gwRaceBin == "" {
			return "skip:norace"
		}
		bin = gwRaceBin
	}
	f, err := os.CreateTemp("", "gwchild*.rec")
	if err != nil {
		return "skip:notemp"
	}
	defer os.Remove(f.Name())
	f.WriteString("gorwp.run " + strings.Join(args, " ") + "\n")
	f.Close()
	c := exec.Command(bin, "c19", "-replay", f.Name())
	c.Env = append(os.Environ(), "GW_CHILD=1", "GORACE=halt_on_error=0")
	if instrumented {
		c.Env = append(c.Env, "GW_RACEBIN=1")
	}
	var so, se bytes.Buffer
	c.Stdout, c.Stderr = &so, &se
	done := make(chan error, 1)
	c.Start()
	go func() { done <- c.Wait() }()
	select {
	case <-done:
	case <-time.After(60 * time.Second):
		c.Process.Kill()
		return "fatal:child_timeout"
	}
	errs := se.String()
	if i := strings.Index(errs, "panic: "); i >= 0 && !strings.Contains(errs, "fatal error: concurrent map") {
		l := errs[i+7:]
		if j := strings.Index(l, "\n"); j > 0 {
			l = l[:j]
		}
		if len(l) > 80 {
			l = l[:80]
		}
		return "fatal:panic:" + strings.ReplaceAll(l, " ", "_")
	}
	if strings.Contains(errs, "fatal error: concurrent map") {
		i := strings.Index(errs, "fatal error: concurrent map")
		l := errs[i:]
		if j := strings.Index(l, "\n"); j > 0 {
			l = l[:j]
		}
		return "fatal:" + strings.ReplaceAll(strings.TrimPrefix(l, "fatal error: "), " ", "_")
	}
	line := strings.TrimSpace(so.String())
	res := ""
	if i := strings.Index(line, " | "); i >= 0 {
		res = line[i+3:]
	} else {
		return "fatal:child_no_output"
	}
	if instrumented {
		n := strings.Count(errs, "WARNING: DATA RACE")
		bindRace := strings.Contains(errs, "gorwp.(*RawPanel).Bind") && strings.Contains(errs, "procesMessagesFromPanel")
		res += " datarace=" + strconv.Itoa(n) + " bindrace=" + b01(bindRace)
	}
	return res
}

// ---- history items -> messages ----

type gwItem struct {
	kind  string // msg | over | trunc | wait | pause | resume | bind
	msgs  []*rwp.OutboundMessage
	n     int
	count int  // events in a burst (for pacing)
	bk    byte // bind: kind of handler
}

func gwHexStr(s string) string {
	if s == "-" || s == "" {
		return ""
	}
	b, _ := hex.DecodeString(s)
	return string(b)
}

func gwEvent(id uint32, kind byte, f []string) *rwp.HWCEvent {
	ai := func(i int) int {
		if i < len(f) {
			v, _ := strconv.Atoi(f[i])
			return v
		}
		return 0
	}
	e := &rwp.HWCEvent{HWCID: id}
	switch kind {
	case 'b':
		e.Binary = &rwp.BinaryEvent{Pressed: ai(1) == 1, Edge: rwp.BinaryEvent_EdgeID(ai(2))}
	case 'p':
		e.Pulsed = &rwp.PulsedEvent{Value: int32(ai(1))}
	case 'a':
		e.Absolute = &rwp.AbsoluteEvent{Value: uint32(ai(1))}
	case 's':
		e.Speed = &rwp.SpeedEvent{Value: int32(ai(1))}
	case 'x':
		e.Binary = &rwp.BinaryEvent{Pressed: ai(1) == 1, Edge: rwp.BinaryEvent_EdgeID(ai(2))}
		e.Pulsed = &rwp.PulsedEvent{Value: int32(ai(3))}
	case 'n':
	}
	return e
}

func gwParseHist(h string) []gwItem {
	items := []gwItem{}
	if h == "" || h == "-" {
		return items
	}
	for _, it := range strings.Split(h, ";") {
		if it == "" {
			continue
		}
		switch it[0] {
		case 'A':
			if len(it) == 1 {
				items = append(items, gwItem{kind: "msg", msgs: []*rwp.OutboundMessage{{FlowMessage: rwp.OutboundMessage_ACK}}})
			} else {
				for _, sub := range gwParseHist(it[1:]) {
					if sub.kind == "msg" {
						for _, m := range sub.msgs {
							m.FlowMessage = rwp.OutboundMessage_ACK
						}
						items = append(items, sub)
					}
				}
			}
		case 'K':
			if len(it) >= 3 {
				id, _ := strconv.Atoi(it[2:])
				items = append(items, gwItem{kind: "bind", bk: it[1], n: id})
			}
		case 'e':
			f := strings.Split(it[2:], ".")
			id, _ := strconv.Atoi(f[0])
			items = append(items, gwItem{kind: "msg", msgs: []*rwp.OutboundMessage{{Events: []*rwp.HWCEvent{gwEvent(uint32(id), it[1], f)}}}})
		case 'B':
			f := strings.Split(it[1:], ".")
			n, _ := strconv.Atoi(f[0])
			id, _ := strconv.Atoi(f[1])
			ms := make([]*rwp.OutboundMessage, n)
			for i := range ms {
				ms[i] = &rwp.OutboundMessage{Events: []*rwp.HWCEvent{{HWCID: uint32(id), Binary: &rwp.BinaryEvent{Pressed: true}}}}
			}
			items = append(items, gwItem{kind: "msg", msgs: ms, count: n})
		case 'g':
			items = append(items, gwItem{kind: "msg", msgs: []*rwp.OutboundMessage{{FlowMessage: rwp.OutboundMessage_PING}}})
		case 'i':
			f := strings.Split(it[1:], ".")
			for len(f) < 3 {
				f = append(f, "-")
			}
			items = append(items, gwItem{kind: "msg", msgs: []*rwp.OutboundMessage{{PanelInfo: &rwp.PanelInfo{Model: gwHexStr(f[0]), Serial: gwHexStr(f[1]), Name: gwHexStr(f[2])}}}})
		case 't':
			f := strings.Split(it[1:], ".")
			for len(f) < 2 {
				f = append(f, "-")
			}
			items = append(items, gwItem{kind: "msg", msgs: []*rwp.OutboundMessage{{PanelTopology: &rwp.PanelTopology{Json: gwHexStr(f[0]), Svgbase: gwHexStr(f[1])}}}})
		case 'm':
			mp := map[uint32]uint32{}
			for _, kv := range strings.Split(it[1:], ",") {
				p := strings.Split(kv, ":")
				if len(p) == 2 {
					k, _ := strconv.Atoi(p[0])
					v, _ := strconv.Atoi(p[1])
					mp[uint32(k)] = uint32(v)
				}
			}
			items = append(items, gwItem{kind: "msg", msgs: []*rwp.OutboundMessage{{HWCavailability: mp}}})
		case 'x':
			n, _ := strconv.Atoi(it[2:])
			if it[1] == 'o' {
				items = append(items, gwItem{kind: "over", n: n})
			} else {
				items = append(items, gwItem{kind: "trunc", n: n})
			}
		case 'w':
			n, _ := strconv.Atoi(it[1:])
			items = append(items, gwItem{kind: "wait", n: n})
		case 'P':
			items = append(items, gwItem{kind: "pause"})
		case 'R':
			items = append(items, gwItem{kind: "resume"})
		}
	}
	return items
}

func gwWire(bin bool, m *rwp.OutboundMessage) []byte {
	if bin {
		return nlBinFrame(m)
	}
	var b []byte
	// availability maps: one `map=` line per entry, ascending key (Go map order is random)
	if len(m.HWCavailability) > 1 {
		ks := []int{}
		for k := range m.HWCavailability {
			ks = append(ks, int(k))
		}
		sort.Ints(ks)
		for _, k := range ks {
			b = append(b, []byte(fmt.Sprintf("map=%d:%d\n", k, m.HWCavailability[uint32(k)]))...)
		}
		return b
	}
	// topology: the panel writes only the lines it has a value for
	if t := m.PanelTopology; t != nil && m.PanelInfo == nil && len(m.Events) == 0 {
		if t.Svgbase != "" {
			b = append(b, []byte("_panelTopology_svgbase="+t.Svgbase+"\n")...)
		}
		if t.Json != "" {
			b = append(b, []byte("_panelTopology_HWC="+t.Json+"\n")...)
		}
		return b
	}
	for _, l := range helpers.OutboundMessagesToRawPanelASCIIstrings([]*rwp.OutboundMessage{m}) {
		b = append(b, []byte(l+"\n")...)
	}
	return b
}

// does the ASCII form carry what the dispatcher looks at? (ids, components, values, identity, topology, map)
func gwAsciiFaithful(m *rwp.OutboundMessage) bool {
	lines := strings.Split(strings.TrimSuffix(string(gwWire(false, m)), "\n"), "\n")
	back := helpers.RawPanelASCIIstringsToOutboundMessages(lines)
	// merge
	agg := &rwp.OutboundMessage{}
	for _, b := range back {
		proto.Merge(agg, b)
	}
	norm := func(x *rwp.OutboundMessage) string {
		s := fmt.Sprint(x.FlowMessage)
		if x.PanelInfo != nil {
			s += "|" + x.PanelInfo.Model + "|" + x.PanelInfo.Serial + "|" + x.PanelInfo.Name
		}
		if x.PanelTopology != nil {
			s += "|" + x.PanelTopology.Json + "|" + x.PanelTopology.Svgbase
		}
		ks := []int{}
		for k := range x.HWCavailability {
			ks = append(ks, int(k))
		}
		sort.Ints(ks)
		for _, k := range ks {
			s += fmt.Sprintf("|%d:%d", k, x.HWCavailability[uint32(k)])
		}
		for _, e := range x.Events {
			s += "|" + gwEvSummary(e) + "#" + fmt.Sprint(e.HWCID)
		}
		return s
	}
	return norm(agg) == norm(m)
}

func gwEvSummary(e *rwp.HWCEvent) string {
	s := ""
	if e.Binary != nil {
		s += "b" + b01(e.Binary.Pressed) + "." + strconv.Itoa(int(e.Binary.Edge))
	}
	if e.Pulsed != nil {
		s += "p" + strconv.Itoa(int(e.Pulsed.Value))
	}
	if e.Absolute != nil {
		s += "a" + strconv.Itoa(int(e.Absolute.Value))
	}
	if e.Speed != nil {
		s += "s" + strconv.Itoa(int(e.Speed.Value))
	}
	if s == "" {
		s = "n"
	}
	return s
}

const gwJSON0 = `{"title":"T0","HWc":[{"id":1,"type":1},{"id":2,"type":1}],"typeIndex":{"1":{"w":10,"subidx":0}}}`
const gwSVG0 = `<svg xmlns="http://www.w3.org/2000/svg" width="10" height="10"></svg>`

func gwRun(a map[string]string) string {
	bin := a["mode"] != "asc"
	initv := a["init"]
	if initv == "" {
		initv = "full"
	}
	fb := nlInt(a, "fb", 0) == 1
	fbBig := nlInt(a, "fb", 0) == 2
	fbn, fbsz := nlInt(a, "fbn", 40), nlInt(a, "fbsz", 1<<20)
	race := nlInt(a, "race", 0) > 0
	panelAcks := nlInt(a, "pa", 0) == 1
	seg := a["seg"]
	items := gwParseHist(a["hist"])
	if !bin {
		if fbBig || initv == "overlimit" {
			return "skip:binary-only"
		}
		for _, it := range items {
			if it.kind == "over" || it.kind == "trunc" {
				return "skip:binary-only"
			}
			for i, m := range it.msgs {
				if it.count > 0 && i > 0 {
					break
				}
				if !gwAsciiFaithful(m) {
					return "skip:roundtrip"
				}
			}
		}
	}

	port, err := nlReservePort()
	if err != nil {
		return "err:port"
	}
	defer port.Close()
	ln, err := port.Listen()
	if err != nil {
		return "err:listen"
	}

	var mu sync.Mutex
	var inv []string
	var lastInv time.Time
	logInv := func(tok string) {
		mu.Lock()
		inv = append(inv, tok)
		lastInv = time.Now()
		mu.Unlock()
	}

	goCh := make(chan struct{})      // handlers bound: the panel may send the history
	histDone := make(chan struct{})  // panel has written the whole history
	panelDone := make(chan struct{}) // panel goroutines finished
	stop := make(chan struct{})
	var acks, pings, fbk int32
	var bindHook func(kind byte, id uint32) // set before goCh is closed
	var paused int32  // the panel does not read its socket
	var lastRx int64  // unix nanos of the last ack / feedback frame the panel parsed
	var histDoneAt int64
	var sawClose int32
	var segRng *Rng
	if strings.HasPrefix(seg, "r") {
		s, _ := strconv.Atoi(seg[1:])
		segRng = NewRng(uint64(s) + 77)
	}

	// ---- scripted panel ----
	go func() {
		defer close(panelDone)
		c, err := ln.Accept()
		if err != nil {
			close(histDone)
			return
		}
		defer c.Close()
		if tc, ok := c.(*net.TCPConn); ok && fbBig {
			tc.SetReadBuffer(256 * 1024) // keep the kernel from absorbing the whole backlog
		}
		var wmu sync.Mutex // the script and (pa=1) the reader's heartbeat answers write to the same socket: one message at a time
		cwrite := func(b []byte) {
			wmu.Lock()
			c.Write(b)
			wmu.Unlock()
		}
		gotPing := make(chan struct{})
		gotLF := make(chan struct{})
		gotReq := make(chan struct{})
		rdone := make(chan struct{})
		go func() { // reader: parse what the client sends
			defer close(rdone)
			buf := make([]byte, 65536)
			var acc []byte
			total := 0
			pingSeen, lfSeen, reqSeen := false, false, false
			for {
				for atomic.LoadInt32(&paused) == 1 {
					select {
					case <-stop:
						return
					default:
					}
					time.Sleep(2 * time.Millisecond)
				}
				n, err := c.Read(buf)
				if n > 0 {
					total += n
					acc = append(acc, buf[:n]...)
					if !pingSeen && total >= 6 {
						pingSeen = true
						acc = acc[6:] // the probe (binary ping frame) in both modes
						close(gotPing)
					}
					if pingSeen && !bin && !lfSeen {
						if i := bytes.IndexByte(acc, '\n'); i >= 0 {
							lfSeen = true
							acc = acc[i+1:]
							close(gotLF)
						}
					}
					if pingSeen && (bin || lfSeen) {
						// parse complete frames / lines
						for {
							if bin {
								if len(acc) < 4 {
									break
								}
								l := int(acc[0]) | int(acc[1])<<8 | int(acc[2])<<16 | int(acc[3])<<24
								if len(acc) < 4+l {
									break
								}
								m := &rwp.InboundMessage{}
								proto.Unmarshal(acc[4:4+l], m)
								acc = acc[4+l:]
								switch {
								case m.FlowMessage == rwp.InboundMessage_ACK:
									atomic.AddInt32(&acks, 1)
									atomic.StoreInt64(&lastRx, time.Now().UnixNano())
								case m.FlowMessage == rwp.InboundMessage_PING:
									atomic.AddInt32(&pings, 1)
									if panelAcks {
										cwrite(nlBinFrame(&rwp.OutboundMessage{FlowMessage: rwp.OutboundMessage_ACK}))
									}
								case len(m.States) > 0:
									atomic.AddInt32(&fbk, 1)
									atomic.StoreInt64(&lastRx, time.Now().UnixNano())
								}
							} else {
								i := bytes.IndexByte(acc, '\n')
								if i < 0 {
									break
								}
								l := strings.TrimSpace(string(acc[:i]))
								acc = acc[i+1:]
								switch {
								case l == "ack":
									atomic.AddInt32(&acks, 1)
									atomic.StoreInt64(&lastRx, time.Now().UnixNano())
								case l == "ping":
									atomic.AddInt32(&pings, 1)
									if panelAcks {
										cwrite([]byte("ack\n"))
									}
								case strings.HasPrefix(l, "HWC#"):
									atomic.StoreInt64(&lastRx, time.Now().UnixNano())
									atomic.AddInt32(&fbk, 1) // mode line of the feedback (the colour line is HWCc#)
								}
							}
							if !reqSeen {
								reqSeen = true
								close(gotReq)
							}
						}
					}
				}
				if err != nil {
					if nlErrKind(err) != "own" {
						atomic.StoreInt32(&sawClose, 1)
					}
					return
				}
			}
		}()
		wait := func(ch chan struct{}) bool {
			select {
			case <-ch:
				return true
			case <-rdone:
				return false
			case <-stop:
				return false
			}
		}
		if !wait(gotPing) {
			close(histDone)
			return
		}
		if bin {
			cwrite([]byte{2, 0, 0, 0, 8, 2})
		} else if !wait(gotLF) {
			close(histDone)
			return
		}
		if !wait(gotReq) {
			close(histDone)
			return
		}
		send := func(b []byte) {
			wmu.Lock()
			defer wmu.Unlock()
			switch {
			case seg == "1":
				for i := range b {
					c.Write(b[i : i+1])
				}
			case segRng != nil:
				for len(b) > 0 {
					n := 1 + segRng.Intn(40)
					if n > len(b) {
						n = len(b)
					}
					c.Write(b[:n])
					b = b[n:]
					if segRng.Chance(20) {
						time.Sleep(time.Millisecond)
					}
				}
			default:
				c.Write(b)
			}
		}
		// initial information
		info := &rwp.PanelInfo{Model: "M1", Serial: "S1", Name: "N1"}
		topo := &rwp.PanelTopology{Json: gwJSON0, Svgbase: gwSVG0}
		switch initv {
		case "nomodel":
			info.Model = ""
		case "noserial":
			info.Serial = ""
		case "noname":
			info.Name = ""
		case "nojson":
			topo.Json = ""
		case "nosvg", "late":
			topo.Svgbase = ""
		}
		switch initv {
		case "fullclose":
			// the complete answer in one write, then the close right behind it
			var b []byte
			b = append(b, gwWire(bin, &rwp.OutboundMessage{PanelInfo: info})...)
			b = append(b, gwWire(bin, &rwp.OutboundMessage{HWCavailability: map[uint32]uint32{1: 1}})...)
			b = append(b, gwWire(bin, &rwp.OutboundMessage{PanelTopology: topo})...)
			cwrite(b)
			close(histDone)
			return
		case "close0", "close2", "overlimit", "stall":
			// the connection ends (or a frame stalls) inside the initialisation window
			if initv != "close0" {
				send(gwWire(bin, &rwp.OutboundMessage{PanelInfo: info}))
			}
			hold := func(d time.Duration) {
				select {
				case <-time.After(d):
				case <-stop:
				case <-rdone:
				}
			}
			switch initv {
			case "close2":
				hold(100 * time.Millisecond)
			case "overlimit":
				hold(100 * time.Millisecond)
				cwrite([]byte{0x20, 0xa1, 0x07, 0x00}) // 500000
				hold(4 * time.Second)
			case "stall":
				if bin {
					cwrite(append([]byte{40, 0, 0, 0}, make([]byte, 37)...))
				} else {
					cwrite([]byte("_isSleeping=")) // a line that never gets its line feed
				}
				hold(4 * time.Second)
			}
			close(histDone)
			return
		}
		send(gwWire(bin, &rwp.OutboundMessage{PanelInfo: info}))
		send(gwWire(bin, &rwp.OutboundMessage{HWCavailability: map[uint32]uint32{1: 1}}))
		if topo.Json != "" || topo.Svgbase != "" {
			send(gwWire(bin, &rwp.OutboundMessage{PanelTopology: topo}))
		}
		if initv == "late" {
			select {
			case <-time.After(2500 * time.Millisecond):
				send(gwWire(bin, &rwp.OutboundMessage{PanelTopology: &rwp.PanelTopology{Svgbase: gwSVG0}}))
			case <-stop:
			}
		}
		if !wait(goCh) {
			close(histDone)
			return
		}
		for _, it := range items {
			switch it.kind {
			case "msg":
				if it.count > 0 && seg != "1" && segRng == nil {
					// a burst goes out as fast as TCP takes it
					var b []byte
					for _, m := range it.msgs {
						b = append(b, gwWire(bin, m)...)
					}
					cwrite(b)
				} else {
					for _, m := range it.msgs {
						send(gwWire(bin, m))
					}
				}
			case "over":
				n := uint32(it.n)
				cwrite([]byte{byte(n), byte(n >> 8), byte(n >> 16), byte(n >> 24)})
			case "trunc":
				n := uint32(it.n)
				tb := []byte{byte(n), byte(n >> 8), byte(n >> 16), byte(n >> 24)}
				if it.n > 3 {
					tb = append(tb, make([]byte, it.n-3)...)
				}
				cwrite(tb)
				select {
				case <-time.After(2500 * time.Millisecond):
				case <-stop:
				}
			case "wait":
				select {
				case <-time.After(time.Duration(it.n) * time.Millisecond):
				case <-stop:
				}
			case "bind":
				if bindHook != nil {
					bindHook(it.bk, uint32(it.n))
				}
			case "pause":
				atomic.StoreInt32(&paused, 1)
			case "resume":
				atomic.StoreInt32(&paused, 0)
			}
		}
		atomic.StoreInt32(&paused, 0)
		atomic.StoreInt64(&histDoneAt, time.Now().UnixNano())
		close(histDone)
		select {
		case <-stop:
		case <-rdone:
		}
		// give the reader a moment to see the client's close
		c.(*net.TCPConn).CloseWrite()
		select {
		case <-rdone:
		case <-time.After(300 * time.Millisecond):
		}
	}()

	// ---- client under test ----
	ctx, cancel := context.WithCancel(context.Background())
	t0 := time.Now()
	rp, cerr := gorwp.Connect(port.Addr(), ctx, cancel)
	tconn := time.Since(t0).Milliseconds()
	if cerr != nil || rp == nil {
		cancel()
		close(stop)
		ln.Close()
		<-panelDone
		return "init=err tconn=" + strconv.FormatInt(tconn, 10)
	}

	// bindings
	var big []byte
	if fbBig {
		big = make([]byte, fbsz)
	}
	feedback := func(id uint32) {
		if fb {
			rp.SetLEDColor(id, color.RGBA{R: 255, A: 255}, rwp.HWCMode_ON)
		}
		if fbBig {
			// a lot of feedback that the handler itself does not wait for
			for i := 0; i < fbn; i++ {
				go rp.SendRawState(&rwp.HWCState{HWCIDs: []uint32{id}, HWCGfx: &rwp.HWCGfx{W: 64, H: 32, ImageData: big}})
			}
		}
	}
	type binding struct {
		kind byte
		id   uint32
	}
	binds := []binding{}
	if b := a["bind"]; b != "" && b != "-" {
		for _, t := range strings.Split(b, ",") {
			if len(t) < 2 {
				continue
			}
			id, _ := strconv.Atoi(t[1:])
			binds = append(binds, binding{t[0], uint32(id)})
		}
	}
	doBind := func(b binding) {
		switch b.kind {
		case 't':
			rp.BindTrigger(b.id, func(id uint32, e *rwp.HWCEvent) {
				logInv("t" + strconv.Itoa(int(id)) + "." + gwEvSummary(e))
				feedback(id)
			})
		case 'b':
			rp.BindBinary(b.id, func(id uint32, st gorwp.BinaryStatus, edge gorwp.BinaryEdge) {
				logInv("b" + strconv.Itoa(int(id)) + "." + strconv.Itoa(int(st)) + "." + strconv.Itoa(int(edge)))
				feedback(id)
			})
		case 'p':
			rp.BindPulsed(b.id, func(id uint32, v int) {
				logInv("p" + strconv.Itoa(int(id)) + "." + strconv.Itoa(v))
				feedback(id)
			})
		case 'a':
			rp.BindAbsolute(b.id, func(id uint32, v int) {
				logInv("a" + strconv.Itoa(int(id)) + "." + strconv.Itoa(v))
				feedback(id)
			})
		case 'i':
			rp.BindIntensity(b.id, func(id uint32, v int) {
				logInv("i" + strconv.Itoa(int(id)) + "." + strconv.Itoa(v))
				feedback(id)
			})
		}
	}
	for _, b := range binds {
		doBind(b)
	}
	raceStop := make(chan struct{})
	raceDone := make(chan struct{})
	if race && len(binds) > 0 {
		go func() {
			defer close(raceDone)
			for {
				for _, b := range binds {
					select {
					case <-raceStop:
						return
					default:
					}
					doBind(b) // same handler behaviour: re-registration must not change what is dispatched
				}
			}
		}()
	} else {
		close(raceDone)
	}
	bindHook = func(kind byte, id uint32) { doBind(binding{kind, id}) }
	mu.Lock()
	lastInv = time.Now()
	mu.Unlock()
	tb := time.Now()
	close(goCh)

	// wait until the history is out and the invocation log has been quiet for a while
	select {
	case <-histDone:
	case <-time.After(30 * time.Second):
	}
	// STOPPING RULE (how long the harness keeps listening; the verdict is the Spec's, on whatever has been seen by then).
	// `quiet` = time since the last invocation / the last ack or feedback frame the panel parsed / the last byte of the
	// history.  The harness stops when
	//   count:    the log holds as many invocations, and the panel as many acknowledges, as a run that loses nothing
	//             produces (gwExpected: an upper bound used ONLY here), and 700 ms of quiet have shown that nothing extra follows;
	//   closed:   the client has ended the connection (nothing more can be dispatched) and 700 ms of quiet;
	//   quiet:    nothing at all has happened for 3 s although the counts are short — a stall, not scheduling noise;
	//   deadline: 12 s (30 s with bulk feedback) after the end of the history.
	// So a correct library that is merely slow (CPU load) is waited for; 700 ms only bounds how long EXTRA effects are looked for.
	expInv, expAcks := gwExpected(items, a["bind"])
	tailQuiet, stallQuiet := 700*time.Millisecond, 3*time.Second
	deadline := time.Now().Add(12 * time.Second)
	if fbBig {
		deadline = time.Now().Add(30 * time.Second)
	}
	cut := "deadline"
	for time.Now().Before(deadline) {
		mu.Lock()
		ref := lastInv
		ninv := len(inv)
		mu.Unlock()
		for _, ns := range []int64{atomic.LoadInt64(&histDoneAt), atomic.LoadInt64(&lastRx)} {
			if ns != 0 && time.Unix(0, ns).After(ref) {
				ref = time.Unix(0, ns)
			}
		}
		q := time.Since(ref)
		complete := ninv >= expInv && int(atomic.LoadInt32(&acks)) >= expAcks
		if complete && q >= tailQuiet {
			cut = "count"
			break
		}
		if atomic.LoadInt32(&sawClose) == 1 && q >= tailQuiet {
			cut = "closed"
			break
		}
		if q >= stallQuiet {
			cut = "quiet"
			break
		}
		time.Sleep(50 * time.Millisecond)
	}
	close(raceStop)
	<-raceDone

	// observations
	mu.Lock()
	invCopy := append([]string{}, inv...)
	tlast := lastInv.Sub(tb).Milliseconds()
	mu.Unlock()
	tj, sv, av := gwReflectState(rp)
	tn := -1
	tg, tf := "-", "-"
	if top := rp.State.GetTopology(); top != nil {
		tn = len(top.HWc)
		tg = gwTopoDigest(top)
		fresh := &topology.Topology{}
		if json.Unmarshal([]byte(tj), fresh) == nil {
			tf = gwTopoDigest(fresh)
		}
	}
	model, serial, name := rp.State.GetModel(), rp.State.GetSerial(), rp.State.GetName()
	time.Sleep(50 * time.Millisecond) // let the last acks / feedback reach the panel
	res := "init=ok inv=" + gwJoin(invCopy) + " ninv=" + strconv.Itoa(len(invCopy)) +
		" acks=" + strconv.Itoa(int(atomic.LoadInt32(&acks))) +
		" pings=" + strconv.Itoa(int(atomic.LoadInt32(&pings))) +
		" fb=" + strconv.Itoa(int(atomic.LoadInt32(&fbk))) +
		" model=" + hx([]byte(model)) + " serial=" + hx([]byte(serial)) + " name=" + hx([]byte(name)) +
		" tj=" + hx([]byte(tj)) + " sv=" + hx([]byte(sv)) + " tn=" + strconv.Itoa(tn) + " tg=" + tg + " tf=" + tf + " av=" + av +
		" isinit=" + b01(rp.IsInitialized()) +
		" closed=" + strconv.Itoa(int(atomic.LoadInt32(&sawClose))) +
		" tconn=" + strconv.FormatInt(tconn, 10) + " tlast=" + strconv.FormatInt(tlast, 10) + " cut=" + cut
	rp.Close()
	close(stop)
	ln.Close()
	<-panelDone
	return res
}

// digest of the JSON form of a parsed topology (map keys are sorted by encoding/json)
func gwTopoDigest(t *topology.Topology) string {
	t.Lock()
	b, err := json.Marshal(t)
	t.Unlock()
	if err != nil {
		return "err"
	}
	h := sha256.Sum256(b)
	return hex.EncodeToString(h[:8])
}

func gwJoin(t []string) string {
	if len(t) == 0 {
		return "-"
	}
	return strings.Join(t, ",")
}

// the state has no getter for the stored JSON / SVG / availability map: read them by reflection under the state's lock
func gwReflectState(rp *gorwp.RawPanel) (tj, sv, av string) {
	rp.State.RLock()
	defer rp.State.RUnlock()
	v := reflect.ValueOf(&rp.State).Elem()
	if f := v.FieldByName("topologyJSON"); f.IsValid() {
		tj = f.String()
	}
	if f := v.FieldByName("topologySVG"); f.IsValid() {
		sv = f.String()
	}
	av = "-"
	if f := v.FieldByName("hwcAvailability"); f.IsValid() && f.Kind() == reflect.Map {
		ks := []int{}
		vals := map[int]uint64{}
		it := f.MapRange()
		for it.Next() {
			k := int(it.Key().Uint())
			ks = append(ks, k)
			vals[k] = it.Value().Uint()
		}
		sort.Ints(ks)
		p := []string{}
		for _, k := range ks {
			p = append(p, fmt.Sprintf("%d:%d", k, vals[k]))
		}
		if len(p) > 0 {
			av = strings.Join(p, ",")
		}
	}
	return
}

// How many invocations and acknowledges a run of the script produces if nothing is lost: every event before the first
// over-limit / truncated frame, once per handler bound to its id (at that point of the script) whose component it carries;
// one acknowledge per panel ping.  Used by the stopping rule of gwRun only.
func gwExpected(items []gwItem, bind string) (ninv, nacks int) {
	bound := map[string]bool{}
	if bind != "" && bind != "-" {
		for _, t := range strings.Split(bind, ",") {
			if len(t) >= 2 {
				bound[t] = true
			}
		}
	}
	for _, it := range items {
		switch it.kind {
		case "over", "trunc":
			return
		case "bind":
			bound[string(it.bk)+strconv.Itoa(it.n)] = true
		case "msg":
			for _, m := range it.msgs {
				if m.FlowMessage == rwp.OutboundMessage_PING {
					nacks++
				}
				for _, e := range m.Events {
					id := strconv.Itoa(int(e.HWCID))
					if bound["t"+id] {
						ninv++
					}
					if bound["b"+id] && e.Binary != nil {
						ninv++
					}
					if bound["p"+id] && e.Pulsed != nil {
						ninv++
					}
					if bound["a"+id] && e.Absolute != nil {
						ninv++
					}
					if bound["i"+id] && e.Speed != nil {
						ninv++
					}
				}
			}
		}
	}
	return
}

// ---------------- generator ----------------

func gwRec(kv ...string) nlRec {
	m := nlKV(kv)
	cost := 1500
	if m["mode"] == "asc" {
		cost += 2000
	}
	if m["init"] != "" && m["init"] != "full" && m["init"] != "noname" {
		cost += 2000
	}
	if strings.Contains(m["hist"], "xt") {
		cost += 5000
	}
	for _, it := range strings.Split(m["hist"], ";") {
		if len(it) > 1 && it[0] == 'w' {
			if n, err := strconv.Atoi(it[1:]); err == nil {
				cost += n
			}
		}
	}
	return nlRec{cmd: "gorwp.run", args: kv, cost: cost}
}

func gwHexOf(s string) string { return hx([]byte(s)) }

func gwRandEvent(r *Rng, bin bool, ids []int) string {
	id := ids[r.Intn(len(ids))]
	i2 := strconv.Itoa
	switch r.Intn(6) {
	case 0:
		return "eb" + i2(id) + "." + i2(r.Intn(2)) + "." + i2(r.Pick(0, 0, 1, 2, 4, 8))
	case 1:
		return "ep" + i2(id) + "." + i2(r.Pick(1, -1, 2, -3, 5))
	case 2:
		return "ea" + i2(id) + "." + i2(r.Pick(0, 1, 500, 999, 1000))
	case 3:
		return "es" + i2(id) + "." + i2(r.Pick(-500, -20, 0, 20, 500))
	case 4:
		if bin {
			if r.Bool() {
				return "en" + i2(id)
			}
			return "ex" + i2(id) + "." + i2(r.Intn(2)) + ".0." + i2(r.Pick(1, -1))
		}
		return "eb" + i2(id) + ".1.0"
	}
	return "eb" + i2(id) + ".0.0"
}

func gwRandUpdate(r *Rng, ver int) string {
	i2 := strconv.Itoa
	switch r.Intn(5) {
	case 0:
		return "g"
	case 1:
		f := []string{"-", "-", "-"}
		f[r.Intn(3)] = gwHexOf("v" + i2(ver))
		if r.Chance(30) {
			f[r.Intn(3)] = gwHexOf("w" + i2(ver))
		}
		return "i" + strings.Join(f, ".")
	case 2:
		// topologies of varying shape: a later one may drop the title, components, per-component fields or type definitions
		n := r.Range(1, 4)
		hw := []string{}
		for i := 1; i <= n; i++ {
			c := `{"id":` + i2(i)
			if r.Chance(40) {
				c += `,"x":` + i2(r.Range(1, 900)) + `,"y":` + i2(r.Range(1, 900)) + `,"txt":"c` + i2(ver) + `"`
			}
			hw = append(hw, c+`,"type":`+i2(r.Range(1, 3))+`}`)
		}
		ti := []string{}
		for k := 1; k <= 3; k++ {
			if r.Chance(60) || (k == 3 && len(ti) == 0) {
				d := `"` + i2(k) + `":{"w":` + i2(10*k)
				if r.Chance(30) {
					d += `,"h":` + i2(r.Range(5, 50)) + `,"in":"b"`
				}
				ti = append(ti, d+`,"subidx":0}`)
			}
		}
		title := ""
		if r.Chance(50) {
			title = `"title":"T` + i2(ver) + `",`
		}
		js := `{` + title + `"HWc":[` + strings.Join(hw, ",") + `],"typeIndex":{` + strings.Join(ti, ",") + `}}`
		if r.Chance(30) {
			return "t-." + gwHexOf(`<svg id="s`+i2(ver)+`"></svg>`) + ".0"
		}
		if r.Chance(40) {
			return "t" + gwHexOf(js) + "." + gwHexOf(`<svg id="s`+i2(ver)+`"></svg>`) + "." + i2(n)
		}
		return "t" + gwHexOf(js) + ".-." + i2(n)
	case 3:
		p := []string{}
		for i := 0; i < r.Range(1, 3); i++ {
			p = append(p, i2(r.Range(1, 9))+":"+i2(r.Intn(3)))
		}
		// distinct keys only (one entry per key in a message)
		seen := map[string]bool{}
		q := []string{}
		for _, e := range p {
			k := e[:strings.Index(e, ":")]
			if !seen[k] {
				seen[k] = true
				q = append(q, e)
			}
		}
		return "m" + strings.Join(q, ",")
	}
	if r.Chance(40) {
		return "A" // an acknowledge (answer to the client's own ping): no effect
	}
	return "g"
}

func genC19(r *Rng, n int, tier string) {
	recs := []nlRec{}
	add := func(kv ...string) { recs = append(recs, gwRec(kv...)) }
	i2 := strconv.Itoa
	thorough := tier == "thorough"
	allBind := "t1,b1,p1,a1,i1,b2,p3,a4,i5,t6"
	modes := []string{"bin", "asc"}

	// (1) initialisation window: complete / one item missing / late
	for _, mode := range modes {
		for _, iv := range []string{"full", "noname", "nomodel", "noserial", "nojson", "nosvg", "late"} {
			add("mode="+mode, "init="+iv, "bind=b1", "fb=0", "seg=0", "hist=eb1.1.0")
		}
	}
	// (2) every event kind x bound / unbound ids, each kind of binding alone and all together
	kinds := []string{"eb%d.1.0", "eb%d.0.4", "ep%d.1", "ep%d.-1", "ea%d.500", "es%d.-20"}
	for _, mode := range modes {
		for _, bind := range []string{"t1", "b1", "p1", "a1", "i1", allBind, "-"} {
			h := []string{}
			for _, id := range []int{1, 2, 7} {
				for _, k := range kinds {
					h = append(h, fmt.Sprintf(k, id))
				}
			}
			if mode == "bin" {
				h = append(h, "en1", "ex1.1.0.1", "en7", "ex2.0.0.-1")
			}
			add("mode="+mode, "init=full", "bind="+bind, "fb=0", "seg=0", "hist="+strings.Join(h, ";"))
		}
	}
	// (3) pings, identity / topology / map updates interleaved with events; segmentation variants
	segs := []string{"0", "1", "r1", "r2"}
	cnt := n
	for i := 0; i < cnt; i++ {
		mode := modes[r.Intn(2)]
		h := []string{}
		m := r.Range(5, 30)
		for j := 0; j < m; j++ {
			if r.Chance(35) {
				h = append(h, gwRandUpdate(r, i*100+j))
			} else {
				h = append(h, gwRandEvent(r, mode == "bin", []int{1, 2, 3, 4, 5, 6, 7}))
			}
		}
		seg := segs[r.Intn(len(segs))]
		if seg[0] == 'r' {
			seg = "r" + i2(r.Intn(1000))
		}
		add("mode="+mode, "init=full", "bind="+allBind, "fb="+i2(r.Pick(0, 0, 1)), "seg="+seg, "hist="+strings.Join(h, ";"))
	}
	// topology updates: a rich topology, then a smaller one that drops the title, two components, per-component fields
	// and type definitions (the getter must show the latest one only), and the other way round
	topoA := `{"title":"Panel A","HWc":[{"id":1,"x":100,"y":200,"txt":"Button","type":10},{"id":2,"x":300,"y":200,"txt":"Knob","type":20},{"id":3,"type":10}],` +
		`"typeIndex":{"10":{"w":100,"h":50,"in":"b","subidx":0,"disp":{"w":64,"h":32,"subidx":-1}},"20":{"w":80,"in":"pb","subidx":0}}}`
	topoB := `{"HWc":[{"id":1,"type":30}],"typeIndex":{"30":{"w":60,"h":400,"in":"av","subidx":0}}}`
	for _, mode := range modes {
		add("mode="+mode, "init=full", "bind=b1", "fb=0", "seg=0", "hist=t"+gwHexOf(topoB)+".-.1;eb1.1.0")
		add("mode="+mode, "init=full", "bind=b1", "fb=0", "seg=0", "hist=t"+gwHexOf(topoA)+".-.3;eb1.1.0;t"+gwHexOf(topoB)+".-.1;eb1.0.0")
		add("mode="+mode, "init=full", "bind=b1", "fb=0", "seg=0", "hist=t"+gwHexOf(topoB)+".-.1;t"+gwHexOf(topoA)+".-.3;t"+gwHexOf(topoB)+".-.1")
	}
	// back-pressure: the panel stops reading while a handler's large feedback piles up in the outgoing queue, pings in
	// that window, then reads again: every ping still gets exactly one acknowledge
	add("mode=bin", "init=full", "bind=b1", "fb=2", "seg=0", "hist=g;w100;P;w50;eb1.1.0;w700;g;w300;R;w500;g")
	add("mode=bin", "init=full", "bind=b1", "fb=2", "fbn=24", "seg=0", "hist=P;w50;eb1.1.0;w500;g;g;w300;R")
	// pings only: one ack each
	for _, mode := range modes {
		add("mode="+mode, "init=full", "bind=b1", "fb=0", "seg=0", "hist=g;g;eb1.1.0;g;w1200;g;g")
	}
	// (4) bursts; handlers without / with feedback
	for _, mode := range modes {
		for _, nb := range []int{50, 200, 500} {
			if !thorough && nb == 200 {
				continue
			}
			add("mode="+mode, "init=full", "bind=b1", "fb=0", "seg=0", "hist=B"+i2(nb)+".1")
		}
		for _, nb := range []int{5, 9, 50, 100, 500} {
			if !thorough && nb == 500 {
				continue
			}
			add("mode="+mode, "init=full", "bind=b1", "fb=1", "seg=0", "hist=B"+i2(nb)+".1")
		}
	}
	add("mode=bin", "init=full", "bind=t1,b1", "fb=1", "seg=0", "hist=B40.1")
	add("mode=bin", "init=full", "bind=t1,b1", "fb=1", "seg=0", "hist=B300.1")
	add("mode=asc", "init=full", "bind=t1,b1", "fb=1", "seg=0", "hist=B300.1")
	// (5) over-limit / truncated frame at first / middle position, valid frames after it
	for _, lim := range []int{500000, 500001, 2147483648, 4294967295} {
		add("mode=bin", "init=full", "bind=b1,p2", "fb=0", "seg=0", "hist=xo"+i2(lim)+";eb1.1.0;ep2.1;eb1.0.0")
		add("mode=bin", "init=full", "bind=b1,p2", "fb=0", "seg=0", "hist=eb1.1.0;ep2.1;w300;xo"+i2(lim)+";eb1.0.0;ep2.-1;g")
		add("mode=bin", "init=full", "bind=b1,p2", "fb=0", "seg=0", "hist=eb1.1.0;ep2.1;xo"+i2(lim)+";eb1.0.0;ep2.-1")
	}
	// a burst right in front of an over-limit header (no pause): the client may drop what is still in its incoming queue
	// when the frame ends the connection, but no more than the queue holds (10): the rest of the burst must have been dispatched
	add("mode=bin", "init=full", "bind=b1", "fb=0", "seg=0", "hist=B40.1;xo500000;eb1.0.0")
	// (one handler per event here: with feedback and two handlers on one id the first handler's feedback can block for good on
	// the dead connection between the two invocations of one event — the log then ends inside a group)
	add("mode=bin", "init=full", "bind=b1,p2", "fb=1", "seg=0", "hist=eb1.1.0;w300;B25.1;ep2.1;xo4294967295;eb1.0.0")
	add("mode=bin", "init=full", "bind=b1,p2", "fb=0", "seg=0", "hist=xo499999")
	add("mode=bin", "init=full", "bind=b1,p2", "fb=0", "seg=0", "hist=xt40;eb1.1.0;ep2.1")
	add("mode=bin", "init=full", "bind=b1,p2", "fb=0", "seg=0", "hist=eb1.1.0;w300;xt40;eb1.0.0;ep2.1")
	add("mode=bin", "init=full", "bind=b1,p2", "fb=0", "seg=0", "hist=eb1.1.0;xt40;eb1.0.0;ep2.1")
	if thorough {
		add("mode=bin", "init=full", "bind=b1,p2", "fb=0", "seg=0", "hist=eb1.1.0;xt4;eb1.0.0;ep2.1")
		add("mode=bin", "init=full", "bind=b1,p2", "fb=0", "seg=1", "hist=eb1.1.0;xt200;eb1.0.0")
	}
	// (6) Bind* from a second goroutine during a burst (child process; thorough: also race-instrumented)
	add("mode=bin", "init=full", "bind=b1,t1,p2", "fb=0", "race=1", "seg=0", "hist=B500.1;ep2.1;B500.1")
	add("mode=bin", "init=full", "bind=b1,t1,p2", "fb=0", "race=2", "seg=0", "hist=B300.1;ep2.1")
	if thorough {
		add("mode=asc", "init=full", "bind=b1,t1,p2", "fb=0", "race=1", "seg=0", "hist=B500.1;ep2.1;B500.1")
		add("mode=asc", "init=full", "bind=b1,t1,p2", "fb=0", "race=2", "seg=0", "hist=B300.1;ep2.1")
	}
	// (7) a message with flow field ACK that carries nothing is dropped without effect (no handler, no ack back)
	for _, mode := range modes {
		add("mode="+mode, "init=full", "bind=b1", "fb=0", "seg=0", "hist=eb1.1.0;A;g;A;eb1.0.0")
	}
	// (8) handlers registered in the middle of a script (after a pause, so that what was sent before has been dispatched):
	// events before the registration are not delivered to the new handler, every event after it exactly once
	for _, mode := range modes {
		add("mode="+mode, "init=full", "bind=b1,t2", "fb=0", "seg=0",
			"hist=eb1.1.0;ep3.1;eb2.1.0;w300;Kp3;Kb2;ep3.-1;eb2.0.0;w300;Kt3;Kb1;ep3.2;eb1.0.0")
		add("mode="+mode, "init=full", "bind=-", "fb=1", "seg=0", "hist=ea4.500;w300;Ka4;ea4.501;B20.4;w300;Kb4;B20.4;ea4.1")
	}
	// (9) initialisation: a line that never gets its line feed — the window passes, Connect fails (ASCII reader has no deadline)
	add("mode=asc", "init=stall", "bind=b1", "fb=0", "seg=0", "hist=-")
	// (10) the connection is lost inside the initialisation window: Connect must fail (model, serial, topology JSON and SVG have
	// not arrived).  Finding C19.connect_success_on_lost_connection, repaired by fix: 800ac1d.
	for _, mode := range modes {
		for _, iv := range []string{"close0", "close2", "overlimit", "stall"} {
			if mode == "asc" && (iv == "overlimit" || iv == "stall") {
				continue // overlimit: binary only; ASCII stall is (9)
			}
			add("mode="+mode, "init="+iv, "bind=b1", "fb=0", "seg=0", "hist=-")
		}
		// compare-only: the complete answer in one write and the close right behind it — whether Connect still sees the four
		// items is a race (the dispatcher stops at ctx.Done() with messages queued); the Spec accepts either result, the model
		// must explain the one observed (success only with the complete state)
		add("mode="+mode, "init=fullclose", "bind=b1", "fb=0", "seg=0", "hist=-")
	}
	// (11) a message with flow field ACK that also carries an event / identity must be processed like any other (the pinned binary
	// reader dropped it whole).  Finding C19.ack_message_dropped_with_payload, repaired by fix: 2f9fdd6.
	for _, mode := range modes {
		add("mode="+mode, "init=full", "bind=b1", "fb=0", "seg=0", "hist=Aeb1.1.0")
		add("mode="+mode, "init=full", "bind=b1,p2", "fb=0", "seg=0", "hist=eb1.1.0;Aep2.1;eb1.0.0;Ai"+gwHexOf("M2")+".-.-;Ag;A")
	}
	// (12) QUIET PERIODS: 2.2 – 4 s of silence from the panel — longer than the reader's 2 s payload deadline and than two
	// heartbeat periods of the client — at every point of a history: right after the answer to the initial request, after
	// an event, after a ping / acknowledge exchange, after a handler's feedback, twice in a row, at the very end; with a
	// panel that leaves the client's heartbeat pings unanswered during the silence (pa=0: the socket is really quiet) and
	// one that acknowledges them (pa=1).  The connection must stay live: everything sent after the silence is dispatched
	// exactly once and the client does not end the connection.
	qms := func() string { return "w" + i2(r.Range(2200, 4000)) }
	for _, mode := range modes {
		for _, pa := range []string{"0", "1"} {
			add("mode="+mode, "init=full", "bind=b1,p2", "fb=0", "pa="+pa, "seg=0", "hist="+qms()+";eb1.1.0;ep2.1;eb1.0.0")
			add("mode="+mode, "init=full", "bind=b1,p2", "fb=0", "pa="+pa, "seg=0", "hist=eb1.1.0;"+qms()+";eb1.0.0;ep2.-1;g")
			add("mode="+mode, "init=full", "bind=b1,p2", "fb=0", "pa="+pa, "seg=0", "hist=eb1.1.0;g;A;"+qms()+";ep2.1;g;eb1.0.0")
			add("mode="+mode, "init=full", "bind=b1,t1", "fb=1", "pa="+pa, "seg=0", "hist=eb1.1.0;eb1.0.0;"+qms()+";B5.1;"+qms()+";eb1.1.0")
		}
		// at the very end of the history: nothing follows, the connection must still be there
		add("mode="+mode, "init=full", "bind=b1", "fb=0", "pa=0", "seg=0", "hist=eb1.1.0;eb1.0.0;"+qms())
	}
	nq := 4
	if thorough {
		nq = 40
	}
	for i := 0; i < nq; i++ {
		mode := modes[r.Intn(2)]
		h := []string{}
		m := r.Range(3, 12)
		for j := 0; j < m; j++ {
			if r.Chance(35) {
				h = append(h, gwRandUpdate(r, 5000+i*100+j))
			} else {
				h = append(h, gwRandEvent(r, mode == "bin", []int{1, 2, 3, 4, 5, 6, 7}))
			}
		}
		// one or two silences at random positions (0 = before everything, len = after everything)
		for k := r.Range(1, 2); k > 0; k-- {
			at := r.Intn(len(h) + 1)
			h = append(h[:at], append([]string{qms()}, h[at:]...)...)
		}
		seg := segs[r.Intn(len(segs))]
		if seg[0] == 'r' {
			seg = "r" + i2(r.Intn(1000))
		}
		add("mode="+mode, "init=full", "bind="+allBind, "fb="+i2(r.Pick(0, 0, 1)), "pa="+i2(r.Pick(0, 0, 1)), "seg="+seg, "hist="+strings.Join(h, ";"))
	}
	gwRunIsolated(recs, 32)
}

// A panic inside a goroutine of the library kills the whole process.  The batch therefore runs in a child process;
// if that dies, every record is re-run alone in its own child and the ones that kill it are reported as `fatal:…`.
func gwRunIsolated(recs []nlRec, par int) {
	if os.Getenv("GW_CHILD") != "" {
		nlRunBatch(recs, par)
		return
	}
	exe, err := os.Executable()
	if err != nil {
		nlRunBatch(recs, par)
		return
	}
	f, err := os.CreateTemp("", "gwbatch*.rec")
	if err != nil {
		nlRunBatch(recs, par)
		return
	}
	defer os.Remove(f.Name())
	for _, r := range recs {
		f.WriteString(r.cmd + " " + strings.Join(r.args, " ") + "\n")
	}
	f.Close()
	c := exec.Command(exe, "c19batch")
	c.Env = append(os.Environ(), "GW_CHILD=1", "GW_BATCH="+f.Name(), "GW_PAR="+strconv.Itoa(par))
	var so bytes.Buffer
	c.Stdout = &so
	err = c.Run()
	lines := strings.Split(strings.TrimSuffix(so.String(), "\n"), "\n")
	if err == nil && len(lines) == len(recs) {
		out.WriteString(so.String())
		return
	}
	// the batch died: one child per record
	outs := make([]string, len(recs))
	sem := make(chan struct{}, 8)
	var wg sync.WaitGroup
	for i := range recs {
		i := i
		sem <- struct{}{}
		wg.Add(1)
		go func() {
			defer wg.Done()
			defer func() { <-sem }()
			outs[i] = gwRunChild(recs[i].args, false)
		}()
	}
	wg.Wait()
	for i, r := range recs {
		out.WriteString(r.cmd + " " + strings.Join(r.args, " ") + " | " + outs[i] + "\n")
	}
}

func init() {
	// child side of gwRunIsolated: run the records of $GW_BATCH concurrently, print them in order
	registerFamily("c19batch", func(r *Rng, n int, tier string) {
		data, err := os.ReadFile(os.Getenv("GW_BATCH"))
		if err != nil {
			os.Exit(3)
		}
		recs := []nlRec{}
		for _, l := range strings.Split(string(data), "\n") {
			t := strings.Fields(l)
			if len(t) > 0 {
				recs = append(recs, gwRec(t[1:]...))
			}
		}
		par, _ := strconv.Atoi(os.Getenv("GW_PAR"))
		if par <= 0 {
			par = 32
		}
		nlRunBatch(recs, par)
	})
}

var _ = bufio.NewReader
