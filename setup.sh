#!/bin/sh
# Build the whole framework from files on disk (offline): extractor, Gen tables, all Lean modules, driver, harness.
set -e
cd "$(dirname "$0")"
export GOFLAGS=-mod=mod GOPROXY=off GOSUMDB=off GOTOOLCHAIN=local CGO_ENABLED=0
mkdir -p bin work evidence replays
(cd extract && go build -o ../bin/extract .)
REPO="${VERIF_REPO:-/repo}"
./bin/extract "$REPO" lean/RawPanelVerif/Gen
cp "$REPO/go.sum" harness/go.sum
(cd harness && go mod edit -replace=github.com/SKAARHOJ/rawpanel-lib="$REPO" && go build -tags verif -o ../bin/harness .)
(cd lean && lake build)
echo setup-ok
